#!/bin/bash
# Every quick check at two VERIF_SEED values must exit 0 on /repo and write valid evidence (outputs go to a scratch dir).
cd /verif || exit 9
OUT=$(mktemp -d /tmp/precommit.XXXX); bad=0
for sd in ${SEEDS:-0 1}; do
  for p in C01 C04 C07 C09 C17; do
    VERIF_OUT=$OUT VERIF_SEED=$sd timeout 1500 ./check $p > $OUT/log.$p.$sd 2>&1; rc=$?
    echo "seed=$sd $p rc=$rc $(tail -1 $OUT/log.$p.$sd | cut -c1-160)"
    grep -E "^VIOLATION|^HARNESS|signature=" $OUT/log.$p.$sd | cut -c1-300
    [ "$rc" != "0" ] && bad=1
    python3-vt - "$OUT/evidence/$p.json" <<'E' || bad=1
import json, jsonschema, sys
jsonschema.validate(json.load(open(sys.argv[1])), json.load(open('/root/.vp/EVIDENCE.schema.json')))
E
  done
done
python3-vt -c "import json, jsonschema; jsonschema.validate(json.load(open('/verif/MANIFEST.json')), json.load(open('/root/.vp/MANIFEST.schema.json')))" || bad=1
rm -rf $OUT
[ $bad = 0 ] && echo "PRECOMMIT OK" || echo "PRECOMMIT FAILED"
exit $bad
