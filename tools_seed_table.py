#!/usr/bin/env python3
"""Regenerate the table of seeded changes inside DESIGN.md (between the two marker lines)."""
import glob, json, re
def key(f):
    m = re.search(r'/(c\d\d)-s(\d+)/', f); return (m.group(1), int(m.group(2)))
rows = []
for f in sorted(glob.glob('/verif/seeded/*/meta.json'), key=key):
    m = json.load(open(f)); cr = m["check_result"]
    first = "missed" if cr.get("first_attempt_exit_code") == 0 or cr["exit_code"] == 0 else "caught"
    rows.append((m["id"], m["property"], m["change"], first, cr["outcome"]))
tbl = "| id | check | seeded change | first run | now |\n|---|---|---|---|---|\n"
for r in rows:
    tbl += "| `%s` | %s | %s | %s | %s |\n" % (r[0], r[1], r[2].replace("|", "\\|"), r[3], r[4].replace("|", "\\|"))
p = '/verif/DESIGN.md'
s = open(p).read()
a = s.index("| id | check | seeded change | first run | now |")
b = s.index("What the six misses changed:")
s = s[:a] + tbl + "\n" + s[b:]
open(p, 'w').write(s)
print(len(rows), "rows;", sum(1 for r in rows if r[3] == "caught"), "caught at the first attempt")
