#!/venv/bin/python
"""Pretty-print replay files: ./tools_show.py replays/C01/*.json"""
import json, sys
sys.path.insert(0, '/verif'); sys.path.insert(0, '/repo')
for f in sys.argv[1:]:
    d = json.load(open(f)); v = d['violation']
    print("==", f, v['signature'], "count", v.get('total_count'), "kf", v.get("kf"))
    print("   features:", v.get('features'))
    c = v['case']
    if 'spec' in c:
        try:
            from sim import specs as S
            env = S.Env()
            print("   schema:", repr(S.build(c['spec'], env))[:600])
        except Exception as e:
            print("   spec:", json.dumps(c['spec'])[:600], "build:", e)
        for k in c:
            if k not in ('spec', 'witness', 'seed', 'm', 'flip_n', 'clock_seed'):
                print("   %s: %s" % (k, json.dumps(c[k])[:300]))
    else:
        print("   case:", json.dumps({k: c[k] for k in c if k != 'ast'})[:600])
    print("   schedule:", json.dumps(v['schedule'])[:300])
    print("   detail:", str(v['detail'])[:400])
    print("   shrink: execs=%s size %s -> %s" % (v.get('minimise_execs'), v.get('original_case_size'), v.get('minimised_case_size')))
