#!/venv/bin/python
"""Regenerate reach_expect.json from two reference quick runs (VERIF_SEED 0 and 1) of every check:
a probe / fault kind is expected when both runs hit it at least sim.reach.MIN_HITS times.
Run by hand after a deliberate workload change; never at check time."""
import json, os, subprocess, sys, tempfile
sys.path.insert(0, os.path.dirname(os.path.abspath(__file__)))
from sim.reach import flatten, MIN_HITS, PATH
V = os.path.dirname(os.path.abspath(__file__))
out = {}
for pid in sys.argv[1:] or ["C01", "C04", "C07", "C09", "C17"]:
    sets = []
    for seed in (0, 1):
        d = tempfile.mkdtemp(prefix="reach_", dir="/tmp")
        subprocess.run([os.path.join(V, "check"), pid, "--tier", "quick", "--seed", str(seed)], cwd=V,
                       env=dict(os.environ, VERIF_OUT=d), stdout=subprocess.DEVNULL)
        cov = json.load(open(os.path.join(d, "evidence", pid + ".json")))["coverage"]
        sets.append({k for k, v in flatten(cov).items() if v >= MIN_HITS})
        subprocess.run(["rm", "-rf", d])
    out[pid] = sorted(sets[0] & sets[1])
    print(pid, len(out[pid]))
old = json.load(open(PATH)) if os.path.exists(PATH) else {}
old.update(out)
json.dump(old, open(PATH, "w"), indent=1, sort_keys=True)
