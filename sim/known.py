"""Matching of violations against the committed known-findings file (narrow predicates)."""


def _subset_match(pat, obj):
    for k, want in pat.items():
        got = obj.get(k)
        if isinstance(want, list):
            if got not in want:
                return False
        elif got != want:
            return False
    return True


def match_known(v, ent):
    m = ent.get("match")
    if not m or ent.get("status") != "known":
        return False
    if "signature" not in m:
        # entries decided by an experiment (e.g. KF-C17-1's masking re-run) carry only a "rule" text;
        # they must never match through this generic path
        return False
    if not _subset_match(m.get("signature", {}), v.get("signature", {})):
        return False
    feats = set(v.get("features") or [])
    if not set(m.get("features_required", [])) <= feats:
        return False
    if set(m.get("features_forbidden", [])) & feats:
        return False
    for group in m.get("features_any", []):
        if not (set(group) & feats):
            return False
    if "features_allowed" in m and not feats <= set(m["features_allowed"]):
        return False
    return True


def classify(v, known):
    for ent in known:
        if match_known(v, ent):
            return ent["id"]
    return None
