"""C17 — seeded generation is reproducible.

The real Mersenne Twister stays in place here (it is part of what must be reproducible);
the simulator owns the *configuration* (hash seed of the interpreter, fresh vs warm process)
and the *history* around the generation calls (non-generating operations interleaved by a
seeded scheduler).  Cross-interpreter comparison is done by the parent (runner.run_check_c17).
"""
import copy
import json
import random as _real_random
import sys

from . import regexgram as G
from . import specs as S
from .base import BaseProp
from .core import canon, dec, derive, enc, fast_digest
from .known import classify

SEEDS = [float("nan"), 0, 1, -1, -2, 7, 7 + (2 ** 61 - 1), 42, 2 ** 31, 2 ** 64 + 3, -(2 ** 70), 10 ** 30, 0.0, 1.5, -2.25, 1e300,
         "", "seed", "日本", b"", b"\x00\xff", "a" * 100]


class Prop(BaseProp):
    id = "C17"
    use_sim_prng = False          # the stdlib PRNG is the subject, not a seam, in this check

    def init(self, args):
        # no seam installation at all: the production configuration is what is compared
        self.args = args
        self.probes = __import__("sim.base", fromlist=["Counter"]).Counter()
        # ... except the timer: d42 reads no timer today; if a change makes it read one, it reads the
        # simulated one, whose speed the 'ambient_shift' execution varies
        from .world import World, install
        self.world = World()
        self.patched = install(self.world, clock=False, prng=False, entropy=False, timer=True)
        self.sim_seconds = 0.0
        self.clock_fired = {}
        self.setup()

    def world_stats(self):
        return {"stats": {}, "site_table": {}, "patched": [], "sim_seconds": 0.0, "clock_fired": {}}

    def setup(self):
        from d42 import fake, represent, schema, substitute, validate
        from d42.generation import Random
        self.env = S.Env()
        self.fake, self.validate, self.represent, self.substitute = fake, validate, represent, substitute
        self.Random = Random
        self.schema = schema
        # a forwarding custom type (the public extension API), so that sequences contain user types too
        from .p_c07 import make_hooked_class
        from d42.declaration import register_type
        self.env.Hooked = make_hooked_class()
        register_type("hooked", self.env.Hooked)

    # ------------------------------------------------------------ cases
    def gen_case(self, labels, cfg):
        return gen_case(labels, cfg)

    # ------------------------------------------------------------ executions
    def build_all(self, case):
        out = []
        for sp in case["specs"]:
            try:
                out.append(S.build(sp, self.env))
            except S.BuildError:
                out.append(None)
        return out

    def values(self, case, schemas, noise=False):
        """set_seed(k) then fake() each schema in order -> list of canonical texts."""
        k = dec(case["k"])
        nr = _real_random.Random(case["noise_seed"]) if noise else None
        self.Random().set_seed(k)
        out = []
        for i, sch in enumerate(schemas):
            if sch is None:
                out.append("UNBUILT")
                continue
            if noise:
                self._noise(nr, schemas, i)
            try:
                g = self.fake(sch)
                out.append(canon(g))
                scribble(g)       # what a caller may do with its own value; later values must not show it
            except RecursionError:
                out.append("EXC:RecursionError")
            except Exception as e:
                out.append("EXC:%s" % type(e).__name__)
        return out

    def values_shifted(self, case, schemas):
        """The same sequence in a shifted ambient state: another local time zone, a coarse decimal context
        with traps, and a simulated timer on which every read costs 0.7 s (a slow or busy machine)."""
        from .world import ambient_shift
        w = self.world
        step = w.time_step
        w.time_step = 0.7
        try:
            with ambient_shift():
                return self.values(case, schemas)
        finally:
            w.time_step = step

    def values_other_thread(self, case, schemas):
        """set_seed(k) on the calling thread, the fake() calls on a helper thread that is joined before
        anything else happens: no concurrency, just another thread identity."""
        import threading
        k = dec(case["k"])
        self.Random().set_seed(k)
        out = []

        def body():
            for sch in schemas:
                if sch is None:
                    out.append("UNBUILT")
                    continue
                try:
                    g = self.fake(sch)
                    out.append(canon(g))
                    scribble(g)
                except RecursionError:
                    out.append("EXC:RecursionError")
                except Exception as e:
                    out.append("EXC:%s" % type(e).__name__)
        t = threading.Thread(target=body)
        t.start()
        t.join()
        return out

    def _noise(self, nr, schemas, i):
        """Non-generating public operations between two fakes (must not influence the values)."""
        live = [s for s in schemas if s is not None]
        for _ in range(nr.randint(1, 4)):
            op = nr.choice(("validate", "repr", "represent", "declare", "eq", "substitute", "validate_bad",
                            "new_random", "from_native", "iterate", "new_generator", "combine", "make_required",
                            "validate_or_fail", "fake_fixed", "getstate_free", "validate_many_errors",
                            "substitute_any_multi", "repr_long", "eq_other_type", "from_native_odd", "make_required_set"))
            s = nr.choice(live)
            self.probes["noise:" + op] += 1
            try:
                if op == "validate":
                    self.validate(s, nr.choice((None, 1, "x", [], {}, 2.5)))
                elif op == "validate_bad":
                    self.validate(s, {"a": [1, {"b": None}]}).get_errors()
                elif op == "repr":
                    repr(s)
                elif op == "represent":
                    self.represent(s)
                elif op == "declare":
                    self.schema.dict({"a": self.schema.list(self.schema.int.min(1)), ...: ...})
                    self.schema.str.alphabet("abc").len(1, 5)
                    self.schema.any(self.schema.int, self.schema.str.regex(r"[^a-c]\\d+"))
                elif op == "eq":
                    s == nr.choice(live)
                    s == nr.choice((1, "x", None))
                elif op == "substitute":
                    for v in (None, 1, "x", [], {}):
                        try:
                            s % v
                        except Exception:
                            pass
                elif op == "new_random":
                    self.Random()           # constructing another Random must not reseed anything
                elif op == "from_native":
                    from d42.utils import from_native
                    from_native({"a": [1, 2.5, "x", None]})
                elif op == "new_generator":
                    from d42.generation import Generator, RegexGenerator
                    Generator(self.Random(), RegexGenerator(self.Random(), max_repeat=3))
                    RegexGenerator(self.Random(), alphabet={"letters": "xyz", "digits": "12", "word": "ab_"})
                elif op == "combine":
                    s | nr.choice(live)
                    d1 = self.schema.dict({"a": self.schema.int, ...: ...})
                    d1 + self.schema.dict({"b": self.schema.str, "a": self.schema.float})
                elif op == "make_required":
                    from d42.utils import make_required
                    from d42 import optional
                    make_required(self.schema.dict({optional("k"): self.schema.int}), ["k"])
                elif op == "validate_or_fail":
                    from d42 import validate_or_fail
                    try:
                        validate_or_fail(s, nr.choice((None, 1, "x", [], {})))
                    except AssertionError:
                        pass
                elif op == "fake_fixed":
                    # generation from fully fixed schemas consumes no draw, so it is "non-generating" for the stream
                    self.fake(self.schema.dict({"a": self.schema.int(1), "b": self.schema.list([self.schema.str("x")])}))
                    self.fake(self.schema.none)
                elif op == "validate_many_errors":
                    big = self.schema.dict({("k%d" % i): self.schema.int.min(0) for i in range(12)})
                    self.validate(big, {("k%d" % i): "bad" for i in range(12)}).get_errors()
                    self.validate(self.schema.list(self.schema.str.len(1)), [1, 2, 3, None, [], {}, 1.5, "xx"] * 4).get_errors()
                elif op == "substitute_any_multi":
                    a = self.schema.any(self.schema.dict({"a": self.schema.int, ...: ...}), self.schema.dict({"a": self.schema.int}),
                                        self.schema.dict, self.schema.any, self.schema.str)
                    a % {"a": 1}
                    try:
                        a % {"a": "x", "b": 2}
                    except Exception:
                        pass
                elif op == "repr_long":
                    repr(self.schema.list([self.schema.int(i) for i in range(60)]))
                    self.represent(self.schema.any(*[self.schema.str(str(i)) for i in range(40)]))
                elif op == "eq_other_type":
                    self.schema.int == self.schema.str
                    self.schema.list(self.schema.int) == self.schema.dict
                    s == self.schema.any(s)
                elif op == "from_native_odd":
                    from d42.utils import from_native
                    for odd in ({1, 2}, (1, 2), frozenset("ab"), object()):
                        try:
                            from_native(odd)
                        except Exception:
                            pass
                elif op == "make_required_set":
                    from d42.utils import make_required
                    from d42 import optional
                    d0 = self.schema.dict({optional("a"): self.schema.int, optional("b"): self.schema.str, optional("c"): self.schema.none})
                    make_required(d0, {"a", "b", "c"})
                    make_required(d0)
                elif op == "getstate_free":
                    import re
                    re.compile(r"[a-c]+\d{2}")
                    sorted({"b", "a", "c"})
                elif op == "iterate":
                    try:
                        list(iter(s))
                    except TypeError:
                        pass
            except Exception:
                pass

    # ------------------------------------------------------------ a whole case (in-process part)
    def run_case(self, case):
        schemas = self.build_all(case)
        if all(s is None for s in schemas):
            return {"executions": 0, "violations": [], "keys": set(), "digest": "discard", "discarded": True}
        a = self.values(case, schemas)
        b = self.values(case, schemas)                # same process, repeated
        c = self.values(case, schemas, noise=True)    # with interleaved non-generating operations
        schemas2 = self.build_all(case)
        d = self.values(case, schemas2)               # freshly built equal schemas
        e = self.values_other_thread(case, schemas)   # seeded on this thread, generated on another (sequentially)
        f = self.values_shifted(case, schemas)        # other local time zone / decimal context, slow simulated timer
        violations = []
        feats = seed_features(case)
        for label, other in (("repeat_same_process", b), ("interleaved_noise", c), ("rebuilt_schemas", d), ("other_thread", e),
                             ("ambient_shift", f)):
            if other != a:
                idx = [i for i, (x, y) in enumerate(zip(a, other)) if x != y]
                sig = {"property": "C17", "outcome": "differs:" + label}
                v = self.make_violation(
                    "C17", sig, case, {"mode": label}, "schemas %s differ: %s vs %s" % (idx, a[idx[0]][:80], other[idx[0]][:80]),
                    {"features": feats, "event_digest": fast_digest([a, other])})
                v["kf"] = classify(v, self.args.get("known", []))
                violations.append(v)
        p = self.probes
        for sp in case["specs"]:
            fs = spec_features(sp)
            for f in fs:
                p["feat:" + f] += 1
        p["seed_type:" + type(dec(case["k"])).__name__] += 1
        if any(x.startswith("EXC:") for x in a):
            p["fake_raised_in_sequence"] += 1
        shapes = tuple(S.shape(sp) for sp in case["specs"])
        keys = {derive(shapes, type(dec(case["k"])).__name__) & 0xFFFFFFFFFFFF}
        self.warm.append((case, a))
        return {"executions": 6, "violations": violations, "keys": keys, "digest": fast_digest(a),
                "per_schema": [fast_digest(x) for x in a],
                "sample": {"seed": canon(dec(case["k"]))[:60], "schemas": [S.shape(sp)[:120] for sp in case["specs"]][:4],
                           "values": [x[:80] for x in a][:4]}}

    warm = []

    def warm_recheck(self, limit=400):
        """Re-run earlier cases late in the process' life (warm: many schemas built, PRNG used)."""
        out = []
        step = max(1, len(self.warm) // limit)
        for case, a in self.warm[::step]:
            schemas = self.build_all(case)
            b = self.values(case, schemas)
            self.probes["warm_process_rechecks"] += 1
            if a != b:
                sig = {"property": "C17", "outcome": "differs:warm_process"}
                v = self.make_violation("C17", sig, case, {"mode": "warm"}, "warm re-run differs",
                                        {"features": seed_features(case), "event_digest": fast_digest([a, b])})
                v["kf"] = classify(v, self.args.get("known", []))
                out.append(v)
        return out

    # ------------------------------------------------------------ shrink / replay (in-process kinds)
    def check_single(self, case, schedule_json, sig_id):
        schemas = self.build_all(case)
        if all(s is None for s in schemas):
            return None
        a = self.values(case, schemas)
        mode = schedule_json.get("mode")
        if mode == "interleaved_noise":
            other = self.values(case, schemas, noise=True)
        elif mode == "other_thread":
            other = self.values_other_thread(case, schemas)
        elif mode == "rebuilt_schemas":
            other = self.values(case, self.build_all(case))
        elif mode == "ambient_shift":
            other = self.values_shifted(case, schemas)
        else:
            other = self.values(case, schemas)
        if a == other:
            return None
        sig = {"property": "C17", "outcome": "differs:" + mode}
        v = self.make_violation("C17", sig, case, schedule_json, "differs", {"features": seed_features(case), "event_digest": fast_digest([a, other])})
        v["kf"] = classify(v, self.args.get("known", []))
        if sig_id is not None and v["sig_id"] != sig_id:
            return None
        if getattr(self, "_kf_target", "__any__") != "__any__" and v["kf"] != self._kf_target:
            return None
        return v

    def minimise(self, v, budget_s=15, max_exec=2000):
        self._kf_target = v.get("kf")
        try:
            return super().minimise(v, budget_s, max_exec)
        finally:
            self._kf_target = "__any__"

    def shrink_candidates(self, v):
        case, sched = v["case"], v["schedule"]
        for c in shrink_case(case):
            yield c, sched


def scribble(v, depth=0):
    """In-place edits of a value fake() returned (the caller owns it): lists grow, dicts get a key."""
    if depth > 6:
        return
    t = type(v)
    if t is list:
        for x in v:
            scribble(x, depth + 1)
        v.append("<scribble>")
    elif t is dict:
        for x in list(v.values()):
            scribble(x, depth + 1)
        v["<scribble>"] = depth
    elif t is bytearray:
        v.extend(b"!")


def gen_case(labels, cfg):
    r = _real_random.Random(derive(*labels, "case"))
    k = S.Knobs(r, no_clock=True, allow_ops=True)
    k.p_regex = r.choice((0.0, 0.3, 0.6, 0.9))
    k.p_regex_unsup = r.choice((0.0, 0.0, 0.3))
    k.p_regex_flags = r.choice((0.0, 0.0, 0.3))
    p_hooked = r.choice((0.0, 0.0, 0.4))
    k.p_value = r.choice((0.0, 0.1))
    if "str" not in k.types and r.random() < 0.7:
        k.types.add("str")
    n = r.randint(1, 8)
    specs = []
    for _ in range(n):
        spec, w = S.gen(r, k)
        if p_hooked and r.random() < p_hooked:
            from .p_c07 import wrap_hooked
            spec = wrap_hooked(spec, r)
        specs.append(spec)
    x = r.random()
    if x < 0.6:
        seed = r.choice(SEEDS)
    elif x < 0.8:
        seed = r.getrandbits(r.choice((8, 32, 64, 200))) * r.choice((1, -1))
    elif x < 0.9:
        seed = r.random() * 10 ** r.randint(-3, 12)
    else:
        seed = bytearray(r.getrandbits(8) for _ in range(r.randint(0, 9)))
    return {"k": enc(seed), "specs": specs, "noise_seed": derive(*labels, "noise"), "index": labels[2]}


def seed_features(case):
    k = dec(case["k"])
    return ["seed_nan"] if isinstance(k, float) and k != k else []


def shrink_case(case):
    specs = case["specs"]
    if len(specs) > 1:
        for i in range(len(specs)):
            yield dict(case, specs=specs[:i] + specs[i + 1:])
    for i, sp in enumerate(specs):
        for c in S.shrink_spec(sp):
            yield dict(case, specs=specs[:i] + [copy.deepcopy(c)] + specs[i + 1:])
    k = dec(case["k"])
    if k != 0 and not (isinstance(k, float) and k != k):
        yield dict(case, k=0)


def spec_features(sp):
    out = set()

    def walk(n):
        t = n["t"]
        out.add("t:" + (n["op"] if t == "op" else t))
        if t == "str" and "regex" in n:
            fs = G.features(n["regex"]["ast"])
            out.add("regex")
            if "class_neg" in fs:
                out.add("regex_negated_class")
            for f in fs:
                out.add("regex_" + f)
            for u in G.unsupported_texts(n["regex"]["ast"]):
                out.add("regex_unsup:" + u)
        if t == "str" and "alphabet" in n:
            out.add("alphabet")
        if t == "str" and "contains" in n:
            out.add("contains")
        if t == "float" and "precision" in n:
            out.add("precision")
        for c in S.children(n):
            walk(c)
    walk(sp)
    return out


def mask_negated(case):
    """The same case with every regex that contains a negated class replaced by a plain str
    (used by the parent to tell the known hash-seed finding from anything else)."""
    def fix(n):
        n = dict(n)
        t = n["t"]
        if t == "str" and "regex" in n and "class_neg" in G.features(n["regex"]["ast"]):
            return {"t": "str", "order": []}
        if t == "list":
            if "type" in n:
                n["type"] = fix(n["type"])
            if "elements" in n:
                n["elements"] = [e if e == "..." else fix(e) for e in n["elements"]]
        elif t == "dict" and "keys" in n:
            n["keys"] = [dict(e, s=fix(e["s"])) if "s" in e else e for e in n["keys"]]
        elif t == "any" and "types" in n:
            n["types"] = [fix(x) for x in n["types"]]
        elif t in ("alias", "hooked"):
            n["inner"] = fix(n["inner"])
        elif t == "op":
            for x in ("a", "b", "s"):
                if x in n:
                    n[x] = fix(n[x])
        return n
    return dict(case, specs=[fix(sp) for sp in case["specs"]])


def serve(prop):
    """Server mode: one JSON case per stdin line -> one JSON line of canonical values."""
    for line in sys.stdin:
        line = line.strip()
        if not line:
            continue
        if line == "quit":
            break
        case = json.loads(line)
        try:
            vals = prop.values(case, prop.build_all(case))
        except Exception as e:
            vals = ["SERVE-ERROR:%s" % type(e).__name__]
        sys.stdout.write(json.dumps({"values": vals}) + "\n")
        sys.stdout.flush()
