"""C07 — schemas are immutable values and all operations on them are pure.

A seeded stateful machine: logical callers (declarer, refiner, combiner, substitutor,
validator, generator, printer, reader) interleaved at operation granularity with two
fault-bearing callers — the *saboteur* (late mutation of containers that were handed to d42)
and the *hook owner* (custom-type hooks that re-enter the public API or raise in the middle of
an outer operation).  After every step: I1 every pooled schema still shows its baseline
observation, I2 every argument value still equals its snapshot, I3 a re-executed earlier
operation on equal inputs gives an equal result.
"""
import copy
import random as _real_random
import sys

from . import specs as S
from .base import BaseProp
from .core import canon, dec, derive, enc, fast_digest
from .known import classify
from .world import DrawCapExceeded, Schedule

FOREIGN = (None, 0, "x", [], {"a": 1}, 2.5, True)
ARG_POOL = (0, 1, -1, 5, 40, 2 ** 63, 0.5, -2.5, 1e19, "", "a", "abc", "[a-c]+", "(", None, True, [], [1], {},
            b"x", ..., 3.14159)
MUT_VALUES = (None, 0, "m", [], {"z": 1}, 1.5, [None])


class MissingOperand(Exception):
    """An op refers to a schema/value that is no longer (or, after shrinking, never was) there."""


def clone(v):
    """Structural copy of containers; leaves (incl. schema objects) by reference."""
    t = type(v)
    if t is list:
        return [clone(x) for x in v]
    if t is dict:
        return {k: clone(x) for k, x in v.items()}
    return v


class HookCrash(BaseException):
    """Raised from inside a custom-type hook: aborts the outer operation part-way."""


_ADDR = __import__("re").compile(r"0x[0-9a-fA-F]{6,}")


def raise_outcome(e):
    """What a raising operation 'returned': the exception type *and* its message (addresses masked).  A
    message that grows or changes with what ran before is a result that depends on history."""
    try:
        msg = _ADDR.sub("0x?", str(e))[:400]
    except Exception as e2:
        msg = "<str() raised %s>" % type(e2).__name__
    return ("raise", type(e).__name__, msg)


def reorder_sets(v):
    """An equal value in which every set / frozenset was filled in the opposite insertion order (CPython
    iterates colliding elements in insertion order: {0, 8} and {8, 0} are equal and iterate differently).
    None when the value holds no set."""
    found = [False]

    def go(x):
        t = type(x)
        if t in (set, frozenset):
            found[0] = True
            return t(reversed(list(x)))
        if t is list:
            return [go(y) for y in x]
        if t is tuple:
            return tuple(go(y) for y in x)
        if t is dict:
            return {k: go(y) for k, y in x.items()}
        return x
    out = go(v)
    return out if found[0] else None


class HookController:
    def __init__(self):
        self.armed = None
        self.count = 0
        self.fired = None
        self.machine = None

    def arm(self, spec, machine):
        self.armed = spec
        self.count = 0
        self.fired = None
        self.machine = machine

    def disarm(self):
        self.armed = None

    def enter(self, kind):
        a = self.armed
        if a is None:
            return
        n = self.count
        self.count += 1
        if n != a["at"]:
            return
        self.armed = None          # one shot; also prevents recursion from the nested operation
        self.fired = (a["action"], kind)
        act = a["action"]
        if act == "reenter":
            self.machine.exec_nested(a["inner"])
        elif act == "raise_base":
            raise HookCrash("injected")
        elif act == "raise_memory":
            raise MemoryError("injected")
        elif act == "raise_exc":
            raise RuntimeError("injected")


CTL = HookController()


def make_hooked_class():
    from niltype import Nil

    from d42.custom_type import CustomSchema, Props

    class HookedProps(Props):
        @property
        def inner(self):
            return self.get("inner")

    class HookedSchema(CustomSchema[HookedProps]):
        def __call__(self, inner):
            if not hasattr(inner, "__accept__"):     # a well-behaved user type: only schemas inside
                raise TypeError("hooked() takes a schema")
            return self.__class__(self.props.update(inner=inner))

        def __represent__(self, visitor, *, indent=0, **kwargs):
            CTL.enter("represent")
            return "schema.hooked(" + self.props.inner.__accept__(visitor, indent=indent, **kwargs) + ")"

        def __generate__(self, visitor, **kwargs):
            CTL.enter("generate")
            return self.props.inner.__accept__(visitor, **kwargs)

        def __validate__(self, visitor, *, value=Nil, path=Nil, **kwargs):
            CTL.enter("validate")
            if self.props.get("index_path", False):
                # what user hooks do to address a part of the value: PathHolder indexing extends the
                # holder it was given (harmless as long as every call gets its own holder)
                path = path["hooked"]
            return self.props.inner.__accept__(visitor, value=value, path=path, **kwargs)

        def index_path(self):
            return self.__class__(self.props.update(index_path=True))

        def __substitute__(self, visitor, *, value=Nil, **kwargs):
            CTL.enter("substitute")
            return self.__class__(self.props.update(inner=self.props.inner.__accept__(visitor, value=value, **kwargs)))

    return HookedSchema


class Entry:
    __slots__ = ("sid", "schema", "probes", "baseline", "parts", "witness", "origin", "hooked", "spec")

    def __init__(self, sid, schema, probes, origin, hooked=False):
        self.sid = sid
        self.schema = schema
        self.probes = probes
        self.origin = origin
        self.hooked = hooked


class VEntry:
    __slots__ = ("vid", "value", "snapshot", "role", "mutated")

    def __init__(self, vid, value, role):
        self.vid = vid
        self.value = value
        self.snapshot = snap(value)
        self.role = role
        self.mutated = 0


def contains_hooked(schema, depth=0):
    from .p_c01 import iter_nodes
    try:
        for n, _ in iter_nodes(schema):
            if type(n).__name__ == "HookedSchema":
                return True
            if type(n).__name__ == "HookedSchema" or "Hooked" in type(n).__name__:
                return True
    except Exception:
        pass
    return "hooked(" in _safe(lambda: repr(schema))


def asks_for_huge_value(schema, depth=0):
    """Does generating from this schema mean allocating a list / str / bytes of > 100 000 members?"""
    from niltype import Nil
    if depth > 12 or not hasattr(schema, "props"):
        return False
    p = schema.props
    for n in ("len", "min_len"):
        try:
            x = p.get(n)
        except Exception:
            x = Nil
        if isinstance(x, int) and not isinstance(x, bool) and x > 100000:
            return True
    for n in ("type", "inner"):
        x = p.get(n)
        if x is not Nil and asks_for_huge_value(x, depth + 1):
            return True
    for n in ("elements", "types"):
        x = p.get(n)
        if x is not Nil and isinstance(x, (list, tuple)) and any(asks_for_huge_value(y, depth + 1) for y in x):
            return True
    x = p.get("keys")
    if x is not Nil and isinstance(x, dict):
        for v in x.values():
            y = v[0] if isinstance(v, tuple) else v
            if asks_for_huge_value(y, depth + 1):
                return True
    return False


def snap(v):
    """Deep, type-exact, NaN-safe snapshot text of a plain value that may contain schemas."""
    t = type(v)
    if t is list:
        return "[" + ",".join(snap(x) for x in v) + "]"
    if t is tuple:
        return "(" + ",".join(snap(x) for x in v) + ")"
    if t is dict:
        return "{" + ",".join(snap(k) + ":" + snap(x) for k, x in v.items()) + "}"
    if isinstance(v, dict):
        return t.__name__ + "{" + ",".join(snap(k) + ":" + snap(x) for k, x in v.items()) + "}"
    if isinstance(v, list):
        return t.__name__ + "[" + ",".join(snap(x) for x in v) + "]"
    if hasattr(v, "props") and hasattr(v, "__accept__"):
        return "<schema %s>" % _safe(lambda: repr(v))
    if t.__name__ == "optional":
        return "optional(%s)" % snap(v.key)
    return canon(v)


def _safe(fn):
    try:
        return fn()
    except Exception as e:   # noqa
        return "EXC:" + type(e).__name__


PART_NAMES = ("repr", "represent", "props", "keys_iter", "keys_iter_before_printing")


class Violation(Exception):
    def __init__(self, invariant, component, kind, detail, features=()):
        super().__init__(detail)
        self.invariant = invariant
        self.component = component
        self.kind = kind
        self.detail = detail
        self.features = list(features)


class Machine:
    MAX_POOL = 12

    def __init__(self, prop):
        self.P = prop
        self.schemas = {}       # sid -> Entry
        self.values = {}        # vid -> VEntry
        self.oplog = []         # executed ops (JSON) with "_outcome"
        self.records = []       # per op: dict(inputs deep copies, outcome) for I3
        self.step = 0
        self.nested = False
        self.fault_tags = set()
        self.outcomes = []
        self._pending_retained = []
        self._deferred = []

    # ------------------------------------------------------------ observation
    def dump(self, v, depth=0):
        from niltype import Nil
        if depth > 12:
            return "<deep>"
        if v is Nil:
            return "Nil"
        if v is ...:
            return "..."
        if hasattr(v, "props") and hasattr(v, "__accept__"):
            p = v.props
            try:
                names = list(p)
            except Exception as e:
                names = []
            return "S(%s|%s)" % (type(v).__name__, ",".join("%s=%s" % (n, self.dump(p.get(n), depth + 1)) for n in names))
        t = type(v)
        if t in (list, tuple):
            return "[" + ",".join(self.dump(x, depth + 1) for x in v) + "]"
        if t is dict:
            return "{" + ",".join(snap(k) + ":" + self.dump(x, depth + 1) for k, x in v.items()) + "}"
        return snap(v)

    def verdict(self, sch, v):
        res = self.P.validate(sch, v)
        out = []
        for e in res.get_errors():
            out.append((type(e).__name__, _safe(lambda: e.format(self.P.formatter))))
        return out

    def observe(self, e):
        sch = e.schema
        kind = type(sch).__name__

        def order():
            if kind == "DictSchema":
                return [snap(k) for k in sch.keys()] + [snap(k) for k in sch]
            if kind == "AnySchema":
                return [self.dump(x) for x in sch]
            return "-"
        # key / alternative order is read first and last: a printer or validator that reorders the
        # schema's own mapping shows up as a difference between the two, or against the baseline
        first = _safe(order)
        parts = [_safe(lambda: repr(sch)), _safe(lambda: self.P.represent(sch)), _safe(lambda: self.dump(sch)), _safe(order)]
        parts.append(first)
        for v in e.probes:
            parts.append(_safe(lambda: self.verdict(sch, v)))
        return parts

    def add_schema(self, sid, schema, origin, witness=None, have_witness=False):
        if not self.nested:
            CTL.disarm()             # hooks are faults *inside* the operation, never inside the observer
        probes = list(FOREIGN)
        if have_witness:
            probes.append(copy.deepcopy(witness))
            try:
                r = _real_random.Random(derive("pert", snap(witness)))
                from .p_c04 import perturb
                probes.append(perturb(copy.deepcopy(witness), r))
            except Exception:
                pass
        e = Entry(sid, schema, probes, origin, hooked=contains_hooked(schema))
        e.witness = witness if have_witness else None
        e.spec = None
        if self.nested:
            # created from inside a hook, i.e. in the middle of an outer repr/validate/...: observing now
            # would observe the *outer* call's transient state (e.g. Python's recursive-repr guard prints
            # "(...)" for a tuple whose repr is in progress up the stack).  Baseline is taken when the
            # outer operation has returned.
            e.parts = None
            e.baseline = None
            self._deferred.append(e)
        else:
            e.parts = self.observe(e)
            e.baseline = fast_digest(e.parts)
        self.schemas[sid] = e
        if len(self.schemas) > self.MAX_POOL:
            # evict the oldest non-canary entry
            for k in list(self.schemas):
                if not k.startswith("canary"):
                    del self.schemas[k]
                    break
        return e

    def retain(self, value, role, vid, snapshot=None):
        ve = VEntry(vid, value, role)
        if snapshot is not None:
            ve.snapshot = snapshot          # taken when the container was handed in, before d42 saw it
        self.values[vid] = ve
        if len(self.values) > 24:
            del self.values[next(iter(self.values))]

    # ------------------------------------------------------------ invariants
    def check_invariants(self, after):
        for e in list(self.schemas.values()):
            if e.baseline is None:
                continue
            parts = self.observe(e)
            if fast_digest(parts) != e.baseline:
                comp = "?"
                det = ""
                for i, (a, b) in enumerate(zip(e.parts, parts)):
                    if a != b:
                        comp = PART_NAMES[i] if i < len(PART_NAMES) else "verdict"
                        det = "%s: %s -> %s" % (comp, str(a)[:160], str(b)[:160])
                        break
                raise Violation("I1:schema_changed", comp, type(e.schema).__name__,
                                "schema %s (from %s) changed after %s; %s" % (e.sid, e.origin, after, det),
                                sorted(self.fault_tags))
        for ve in list(self.values.values()):
            if snap(ve.value) != ve.snapshot:
                raise Violation("I2:argument_mutated", ve.role, type(ve.value).__name__,
                                "value %s (%s) changed after %s: %s -> %s" % (ve.vid, ve.role, after, ve.snapshot[:120], snap(ve.value)[:120]),
                                sorted(self.fault_tags))

    # ------------------------------------------------------------ operand resolution
    def sch(self, sid):
        e = self.schemas.get(sid)
        if e is None:
            raise MissingOperand(sid)
        return e.schema

    def arg(self, a):
        """decode a refinement/combination argument"""
        if isinstance(a, dict) and len(a) == 1:
            (k, x), = a.items()
            if k == "$schema":
                return self.sch(x)
            if k == "$nil":
                from niltype import Nil
                return Nil
            if k == "$schemas":
                def one(y):
                    if y == "...":
                        return ...
                    if isinstance(y, list):           # a nested native list of schemas (refused today)
                        return [one(z) for z in y]
                    return self.sch(y)
                return [one(y) for y in x]
            if k == "$schemadict":
                d = {}
                for kk, opt, y in x:
                    key = dec(kk)
                    if y == "...":
                        d[...] = ...
                    else:
                        d[self.P.env.optional(key) if opt else key] = self.sch(y)
                return d
        return dec(a)

    def val(self, vspec, role, vout):
        """value operand: {"new": enc} (retained under vout) | {"ref": vid}"""
        if "lit" in vspec:
            return clone(vspec["lit"]), None
        if "ref" in vspec:
            ve = self.values.get(vspec["ref"])
            if ve is None:
                raise MissingOperand(vspec["ref"])
            self._last_ref_clone = clone(ve.value)
            return ve.value, ve
        v = dec(vspec["new"])
        if isinstance(v, (list, dict)) and vout:
            self._pending_retained.append((v, role, vout, snap(v)))
        return v, None

    # ------------------------------------------------------------ execution of one operation
    def run_op(self, op):
        """Execute op (public API only).  Returns an outcome summary tuple."""
        P = self.P
        k = op["op"]
        if k == "declare":
            n = [0]

            def retain(c, role):
                n[0] += 1
                self._pending_retained.append((c, role, "%s.c%d" % (op["out"], n[0]), snap(c)))
            P.env.retain = retain
            try:
                sch = S.build(op["spec"], P.env)
            finally:
                P.env.retain = None
            e = self.add_schema(op["out"], sch, "declare", dec(op["witness"]) if "witness" in op else None, "witness" in op)
            e.spec = op["spec"]
            return ("ok", e.baseline)
        if k == "refine":
            s = self.sch(op["s"])
            name = op["call"][0]
            args = [self.arg(a) for a in op["call"][1:]]
            for a in args:
                if type(a) in (list, dict):
                    self._pending_retained.append((a, "declared_" + type(a).__name__, "%s.a" % op["out"], snap(a)))
            kw = {kk: self.arg(a) for kk, a in (op.get("kw") or {}).items()}     # keyword form (refused today)
            if name == "__call__":
                res = s(*args, **kw)
            else:
                res = getattr(s, name)(*args, **kw)
            e = self.add_schema(op["out"], res, "refine:" + name)
            return ("ok", e.baseline)
        if k == "combine":
            kind = op["kind"]
            args = [self.arg(a) for a in op["args"]]
            sc = P.env.schema
            if kind == "+":
                res = args[0] + args[1]
            elif kind == "|":
                res = args[0] | args[1]
            elif kind == "any":
                res = sc.any(*args)
            elif kind == "alias":
                res = sc.alias("A", args[0])
            elif kind == "list_of":
                res = sc.list(args[0])
            elif kind == "list_elems":
                self._pending_retained.append((args[0], "declared_list", "%s.a" % op["out"], snap(args[0])))
                res = sc.list(args[0])
            elif kind == "dict_of":
                self._pending_retained.append((args[0], "declared_dict", "%s.a" % op["out"], snap(args[0])))
                res = sc.dict(args[0])
            elif kind == "hooked":
                res = P.env.Hooked()(args[0])
            elif kind == "hooked_index":
                res = P.env.Hooked()(args[0]).index_path()
            elif kind == "make_required":
                keys = args[1]
                if type(keys) is list:
                    self._pending_retained.append((keys, "make_required_keys", "%s.a" % op["out"], snap(keys)))
                res = P.env.make_required(args[0], keys)
            else:
                raise ValueError(kind)
            e = self.add_schema(op["out"], res, "combine:" + kind)
            return ("ok", e.baseline)
        if k == "substitute":
            s = self.sch(op["s"])
            v, ve = self.val(op["v"], "substitute_arg", op.get("vout"))
            res = (s % v) if op.get("how", "%") == "%" else P.substitute(s, v)
            e = self.add_schema(op["out"], res, "substitute")
            return ("ok", e.baseline)
        if k == "from_native":
            v, ve = self.val(op["v"], "from_native_arg", op.get("vout"))
            res = P.from_native(v)
            e = self.add_schema(op["out"], res, "from_native", copy.deepcopy(v), True)
            return ("ok", e.baseline)
        if k == "validate":
            s = self.sch(op["s"])
            v, ve = self.val(op["v"], "validate_arg", op.get("vout"))
            how = op["how"]
            if how == "validate":
                return ("ok", fast_digest(self.verdict(s, v)))
            if how == "validate_or_fail":
                return ("ok", P.validate_or_fail(s, v))
            if how == "eq":
                return ("ok", bool(s == v))
            return ("ok", bool(s != v))
        if k == "eq_schema":
            return ("ok", bool(self.sch(op["a"]) == self.sch(op["b"])))
        if k == "fake":
            s = self.sch(op["s"])
            if asks_for_huge_value(s):
                # e.g. schema.list(schema.none).len(2**63): generating is a question of memory, not of
                # purity, and how far it gets before MemoryError depends on the machine
                raise MissingOperand("huge")
            sched = Schedule.from_json(op["schedule"])
            P.world.begin(sched, derive("c07", sched.seed))
            g = P.fake(s) if op["how"] == "fake" else ~s
            out = ("ok", canon(g))
            from .p_c17 import scribble
            scribble(g)        # the caller owns what fake() returned; no schema and no later value may show the edits
            return out
        if k == "print":
            s = self.sch(op["s"])
            return ("ok", repr(s) if op["how"] == "repr" else P.represent(s))
        if k == "read":
            s = self.sch(op["s"])
            how = op["how"]
            if how == "getitem":
                return ("ok", self.dump(s[dec(op["key"])]))
            if how == "keys":
                return ("ok", [snap(x) for x in s.keys()])
            if how == "iter":
                return ("ok", [self.dump(x) if hasattr(x, "props") else snap(x) for x in s])
            if how == "props":
                return ("ok", self.dump(s))
            raise ValueError(how)
        if k == "mutate":
            ve = self.values.get(op["v"])
            if ve is None:
                raise MissingOperand(op["v"])
            tgt = ve.value
            for p in op["path"]:
                tgt = tgt[dec(p)]
            act = op["action"]
            x = self.arg(act[-1]) if len(act) > 1 else None
            if type(tgt) is list:
                if act[0] == "append":
                    tgt.append(x)
                elif act[0] == "insert":
                    tgt.insert(act[1], x)
                elif act[0] == "pop":
                    tgt.pop(act[1] if tgt and -len(tgt) <= act[1] < len(tgt) else -1)
                elif act[0] == "set":
                    tgt[act[1] % len(tgt)] = x
                elif act[0] == "clear":
                    tgt.clear()
                elif act[0] == "reverse":
                    tgt.reverse()
            elif type(tgt) is dict:
                if act[0] == "set":
                    tgt[dec(act[1])] = x
                elif act[0] == "del":
                    del tgt[dec(act[1])]
                elif act[0] == "clear":
                    tgt.clear()
                elif act[0] == "pop":
                    tgt.pop(next(iter(tgt)))
            else:
                raise TypeError("not a container")
            ve.snapshot = snap(ve.value)      # the harness mutated it itself
            ve.mutated += 1
            self.fault_tags.add("late_mutation:" + ve.role)
            if op["path"]:
                self.fault_tags.add("late_mutation_nested")
            return ("ok", "mutated")
        raise ValueError("unknown op %r" % (k,))

    def exec_nested(self, op):
        """A complete public operation executed from inside a hook (mid-operation re-entrancy)."""
        self.nested = True
        try:
            try:
                self.run_op(op)
            except Exception:
                pass
        finally:
            self.nested = False
        self.P.probes["hook_reentered:%s" % op["op"]] += 1

    def exec_step(self, op, check=True):
        """Run one top-level op with fault arming, classify outcome, then check invariants."""
        P = self.P
        self.step += 1
        self._pending_retained = []
        hook = op.get("hook")
        if op["op"] == "repeat":
            return self.exec_repeat(op)
        self._last_ref_clone = None
        if hook:
            CTL.arm(hook, self)
        try:
            try:
                outcome = self.run_op(op)
            finally:
                CTL.disarm()
        except MissingOperand:
            outcome = ("skip", "missing operand")
        except DrawCapExceeded:
            outcome = ("skip", "draw cap")
        except RecursionError:
            outcome = ("skip", "recursion")
        except HookCrash:
            outcome = ("raise", "HookCrash")
        except MemoryError:
            outcome = ("raise", "MemoryError")
        except Exception as e:
            outcome = raise_outcome(e)
        for c, role, vid, sn in self._pending_retained:
            self.retain(c, role, vid, sn)
        for e in self._deferred:
            e.parts = self.observe(e)
            e.baseline = fast_digest(e.parts)
        self._deferred = []
        if hook and CTL.fired:
            self.fault_tags.add("hook:%s" % CTL.fired[0])
            P.probes["hook_fired:%s_in_%s" % CTL.fired] += 1
            CTL.fired = None
        # identity independence: the same operation on a structural clone of a *referenced* container
        # (fresh objects, equal content) must end the same way
        if self._last_ref_clone is not None and outcome[0] in ("ok", "raise") and not hook \
                and op["op"] in ("from_native", "substitute", "validate"):
            rop = dict(op)
            rop["out"] = "ii%d" % self.step
            rop["vout"] = None
            rop["v"] = {"lit": self._last_ref_clone}
            before = dict(self.schemas)
            keep = self._pending_retained
            self._pending_retained = []
            try:
                out2 = self.run_op(rop)
            except MissingOperand:
                out2 = None
            except (DrawCapExceeded, RecursionError):
                out2 = None
            except Exception as e:
                out2 = raise_outcome(e)
            self.schemas = before
            self._pending_retained = keep
            if out2 is not None:
                P.probes["identity_independence_checked"] += 1
                if out2 != outcome:
                    raise Violation("I3:depends_on_object_identity", op["op"], op.get("how", ""),
                                    "%s on the referenced container gave %s, on an equal fresh copy %s" % (
                                        describe(op), str(outcome)[:120], str(out2)[:120]), sorted(self.fault_tags))
        # equal inputs: the same value with its sets filled in the opposite order (message text aside:
        # Python itself prints equal sets differently)
        if outcome[0] in ("ok", "raise") and not hook and op["op"] in ("from_native", "substitute") \
                and isinstance(op.get("v"), dict) and "new" in op["v"]:
            other = reorder_sets(dec(op["v"]["new"]))
            if other is not None:
                rop = dict(op)
                rop["out"] = "so%d" % self.step
                rop["vout"] = None
                rop["v"] = {"lit": other}
                before = dict(self.schemas)
                keep = self._pending_retained
                self._pending_retained = []
                try:
                    out2 = self.run_op(rop)
                except (MissingOperand, DrawCapExceeded, RecursionError):
                    out2 = None
                except Exception as e:
                    out2 = raise_outcome(e)
                self.schemas = before
                self._pending_retained = keep
                if out2 is not None:
                    P.probes["set_order_independence_checked"] += 1
                    if out2[:2] != outcome[:2]:
                        raise Violation("I3:depends_on_set_insertion_order", op["op"], op.get("how", ""),
                                        "%s gave %s, with the sets of the value filled in the opposite order %s" % (
                                            describe(op), str(outcome)[:120], str(out2)[:120]), sorted(self.fault_tags))
        P.probes["op:%s:%s" % (op["op"], outcome[0])] += 1
        if outcome[0] == "raise":
            P.probes["raised_in:%s" % op["op"]] += 1
        self.oplog.append(op)
        self.outcomes.append(outcome)
        self.records.append((op, outcome, bool(hook), self._last_ref_clone))
        if check:
            self.check_invariants("step %d %s" % (self.step, describe(op)))
        return outcome

    def exec_repeat(self, op):
        P = self.P
        ref = op["ref"]
        if ref >= len(self.records):
            self.oplog.append(op)
            self.outcomes.append(("skip", "no such op"))
            self.records.append((op, ("skip", ""), False, None))
            return ("skip", "")
        orig, out0, hooked, ref_clone = self.records[ref]
        if hooked or out0[0] == "skip" or orig["op"] in ("mutate", "repeat", "declare"):
            res = ("skip", "not repeatable kind")
        else:
            rop = dict(orig)
            rop.pop("hook", None)
            rop["out"] = "r%d" % self.step          # result goes to a scratch id
            if "vout" in rop:
                rop["vout"] = None
            if "v" in rop and isinstance(rop["v"], dict) and "ref" in rop["v"]:
                # "equal inputs": the referenced container as it was when the original ran
                rop["v"] = {"lit": ref_clone}
            rebuilt = None
            if rop is not None and op.get("rebuilt") and "s" in rop:
                # "equal inputs": a freshly built, structurally equal schema instead of the same object
                e0 = self.schemas.get(rop["s"])
                if e0 is not None and e0.spec is not None:
                    try:
                        rebuilt = S.build(e0.spec, P.env)
                    except Exception:
                        rebuilt = None
            if rop is not None:
                before = dict(self.schemas)
                if rebuilt is not None:
                    tmp_id = "rb%d" % self.step
                    te = Entry(tmp_id, rebuilt, [], "rebuilt")
                    self.schemas = dict(before)
                    self.schemas[tmp_id] = te
                    rop["s"] = tmp_id
                    P.probes["repeat_on_rebuilt_schema"] += 1
                self._pending_retained = []
                try:
                    out1 = self.run_op(rop)
                except MissingOperand:
                    out1 = ("skip", "missing operand")
                except DrawCapExceeded:
                    out1 = ("skip", "draw cap")
                except RecursionError:
                    out1 = ("skip", "recursion")
                except Exception as e:
                    out1 = raise_outcome(e)
                # the scratch result must not stay in the pool
                self.schemas = before
                self._pending_retained = []
                if out1[0] != "skip":
                    P.probes["repeat_checked"] += 1
                    if self.step - ref >= 10:
                        P.probes["repeat_after>=10_steps"] += 1
                    if out1 != out0:
                        raise Violation("I3:not_repeatable", orig["op"], orig.get("how", orig.get("kind", "")),
                                        "op #%d %s gave %s, repeated at step %d gave %s" % (
                                            ref, describe(orig), str(out0)[:120], self.step, str(out1)[:120]),
                                        sorted(self.fault_tags))
                res = ("ok", "repeat")
        self.oplog.append(op)
        self.outcomes.append(res)
        self.records.append((op, res, False, None))
        self.check_invariants("step %d repeat" % self.step)
        return res


def describe(op):
    k = op["op"]
    extra = op.get("how") or op.get("kind") or (op.get("call") or [""])[0] or (op.get("action") or [""])[0]
    s = "%s%s" % (k, (":" + str(extra)) if extra else "")
    if op.get("hook"):
        s += "+hook:" + op["hook"]["action"]
    return s


# ---------------------------------------------------------------------------------------------

class OpGen:
    """Seeded generation of the next operation from the current machine state."""

    def __init__(self, r, machine, knobs):
        self.r = r
        self.m = machine
        self.k = knobs
        self.n = 0
        w = {}
        for name, base in (("declare", 3), ("bare", 2), ("regex", 1), ("bigalpha", 1), ("refine", 4), ("combine", 3), ("substitute", 3), ("validate", 3),
                           ("fake", 2), ("print", 1), ("read", 1), ("from_native", 1), ("mutate", 4), ("repeat", 3),
                           ("eq_schema", 1)):
            w[name] = base * r.choice((0.3, 1, 1, 2))
        self.weights = w
        self.p_hook = r.choice((0.0, 0.3, 0.6))
        self.p_ref = r.choice((0.1, 0.4))

    def new_id(self, prefix):
        self.n += 1
        return "%s%d" % (prefix, self.n)

    def pick_sid(self, pred=None):
        ids = [k for k, e in self.m.schemas.items() if pred is None or pred(e)]
        if not ids:
            return None
        return self.r.choice(ids)

    def value_for(self, e):
        r = self.r
        from .p_c04 import UNRELATED, perturb
        x = r.random()
        if e is not None and e.witness is not None and x < 0.55:
            w = copy.deepcopy(e.witness)
            y = r.random()
            if y < 0.4:
                return w
            if y < 0.65:
                return S.partial_of(w, r, 0.4)
            if y < 0.70 and type(w) is dict and any(type(k) is str and type(x) is dict for k, x in w.items()):
                # a flattened key next to the nested dict it points into ("user": {...} and "user.age": 1)
                kk = r.choice([k for k, x in w.items() if type(k) is str and type(x) is dict])
                sub = w[kk]
                leaf = r.choice([k for k in sub if type(k) is str] or ["age"])
                w["%s.%s" % (kk, leaf)] = sub.get(leaf, 42)
                if r.random() < 0.5:
                    w["%s.%s" % (kk, "zz")] = None
                return w
            if y < 0.75 and type(w) is dict:
                w["__extra__"] = r.choice((1, None, [1], {"k": 1}))     # undeclared keys
                if r.random() < 0.6:
                    w["zz_extra"] = 0
                    w["another extra"] = "x"
                return w
            return perturb(w, r)
        if x < 0.72:
            return copy.deepcopy(r.choice(UNRELATED))
        if x < 0.82:
            from collections import OrderedDict, defaultdict
            base = {"a": 1, "id": 2} if r.random() < 0.5 else {}
            if e is not None and type(e.witness) is dict and r.random() < 0.7:
                base = S.partial_of(copy.deepcopy(e.witness), r, 0.5)
            if r.random() < 0.7:
                d = defaultdict(int)
                d.update(base)
                return r.choice((d, [d], {"k": d}))
            return OrderedDict(base)
        return copy.deepcopy(r.choice(([1, ...], {"a": ...}, [..., 1], {"k": {...: 1}}, [{...: 1}], {"a": [1, {...: 2}]}, {...: ...}, {"a": [1, 2], "b": {"c": None}}, [[1, 2], [3]], [{"a": 1}, {"a": 2}],
                                       (1, 2), ("a",), {"a", "b"}, frozenset((1, 2)), bytearray(b"ab"), [(1, 2), {"k": (3,)}],
                                       {0, 8}, frozenset((16, 0, 8)), {"ids": {8, 0}}, [frozenset((0, 32))], {"a": 1, "tags": {"x", "y"}})))

    def vspec(self, e):
        r = self.r
        if self.m.values and r.random() < self.p_ref:
            return {"ref": r.choice(list(self.m.values))}
        return {"new": enc(self.value_for(e))}

    queue = ()

    def next(self):
        r = self.r
        m = self.m
        if self.queue:
            op, self.queue = self.queue[0], self.queue[1:]
            return op
        names = list(self.weights)
        if not m.schemas:
            kind = "declare"
        else:
            kind = r.choices(names, [self.weights[n] for n in names])[0]
        fn = getattr(self, "g_" + kind)
        op = fn()
        if op is None:
            op = self.g_declare()
        # arm a hook on operations that traverse a hooked schema
        if op["op"] in ("validate", "fake", "print", "substitute", "from_native") and "s" in op:
            e = m.schemas.get(op["s"])
            if e is not None and e.hooked and r.random() < self.p_hook:
                action = r.choice(("reenter", "reenter", "raise_base", "raise_memory", "raise_exc"))
                hook = {"at": r.choice((0, 0, 1, 2)), "action": action}
                if action == "reenter":
                    inner = None
                    for _ in range(4):
                        inner = getattr(self, "g_" + r.choice(("validate", "fake", "print", "substitute", "refine", "combine")))()
                        if inner is not None:
                            break
                    if inner is None:
                        return op
                    inner.pop("hook", None)
                    hook["inner"] = inner
                op["hook"] = hook
        return op

    # ---- generators per caller
    def g_declare(self):
        r = self.r
        spec, w = S.gen(r, self.k)
        if self.k.p_hooked and r.random() < self.k.p_hooked:
            spec = wrap_hooked(spec, r)
        return {"op": "declare", "spec": spec, "witness": enc(w), "out": self.new_id("s")}

    def g_refine(self):
        r = self.r
        sid = self.pick_sid()
        e = self.m.schemas[sid]
        kind = type(e.schema).__name__
        sensible = {
            "IntSchema": ("__call__", "min", "max"), "FloatSchema": ("__call__", "min", "max", "precision"),
            "StrSchema": ("__call__", "len", "alphabet", "contains", "regex"), "ListSchema": ("__call__", "len"),
            "DictSchema": ("__call__",), "AnySchema": ("__call__",), "BoolSchema": ("__call__",),
            "BytesSchema": ("__call__",), "NoneSchema": ("__call__",),
        }.get(kind, ("__call__",))
        x0 = r.random()
        if x0 < 0.55:
            op = self._fresh_refinement(sid, e, kind)
            if op is not None:
                return op
        if x0 < 0.85:
            name = r.choice(sensible)
        else:
            name = r.choice(("__call__", "min", "max", "precision", "len", "alphabet", "contains", "regex", "nonexistent"))
        nargs = 2 if (name == "len" and r.random() < 0.6) else 1
        args = []
        for _ in range(nargs):
            x = r.random()
            if x < 0.12 and self.m.schemas:
                args.append({"$schema": self.pick_sid()})
            elif x < 0.2 and name == "__call__" and self.m.schemas:
                ids = [self.pick_sid() for _ in range(r.randint(0, 3))]
                if r.random() < 0.3:
                    ids.insert(r.choice((0, len(ids))), "...")
                if r.random() < 0.15:
                    ids.insert(r.randint(0, len(ids)), [self.pick_sid() for _ in range(r.randint(0, 2))])
                args.append({"$schemas": ids})
            elif x < 0.27 and name == "__call__" and self.m.schemas:
                items = []
                for kk in r.sample(("a", "b", "id", 1), r.randint(0, 3)):
                    items.append([enc(kk), r.random() < 0.3, self.pick_sid()])
                if r.random() < 0.3:
                    items.append([enc("..."), False, "..."])
                args.append({"$schemadict": items})
            elif x < 0.3:
                args.append({"$nil": 1})
            else:
                args.append(enc(copy.deepcopy(r.choice(ARG_POOL))))
        op = {"op": "refine", "s": sid, "call": [name] + args, "out": self.new_id("s")}
        if r.random() < 0.08:
            # keyword arguments beside (or instead of) the positional ones: keys as keywords for a dict,
            # value= / min= ... elsewhere
            kk = r.choice(("role", "name", "value", "min", "max", "len", "key"))
            op["kw"] = {kk: ({"$schema": self.pick_sid()} if r.random() < 0.6 else enc(r.choice((1, "x", None))))}
            if r.random() < 0.3:
                op["call"] = [name]
        return op

    def _fresh_refinement(self, sid, e, kind):
        """A refinement that is still *allowed* on this schema (so that it usually succeeds)."""
        from niltype import Nil
        r = self.r
        p = e.schema.props
        has = lambda n: p.get(n) is not Nil   # noqa: E731
        cands = []
        try:
            if kind in ("IntSchema", "FloatSchema"):
                conv = (lambda x: x) if kind == "IntSchema" else float
                val = p.get("value")
                lo = p.get("min")
                hi = p.get("max")
                base = val if val is not Nil else (lo if lo is not Nil else (hi if hi is not Nil else conv(r.randint(-5, 5))))
                if not has("min"):
                    cands.append(["min", enc(conv(base - r.choice((0, 1, 10))))])
                if not has("max"):
                    cands.append(["max", enc(conv(base + r.choice((0, 1, 10))))])
                if kind == "FloatSchema" and not has("precision"):
                    cands.append(["precision", r.choice((1, 2, 5))])
                if not (has("value") or has("min") or has("max")):
                    cands.append(["__call__", enc(conv(r.randint(-9, 9)))])
                if kind == "IntSchema" and r.random() < 0.3:
                    # bool is an int: True / False are legal int arguments
                    fits = lambda b: (val is Nil or val == b) and (lo is Nil or lo <= b) and (hi is Nil or hi >= b)   # noqa: E731
                    if not has("min") and (val is Nil or val >= 0) and (hi is Nil or hi >= 0):
                        cands.append(["min", False])
                    if not has("max") and (val is Nil or val <= 1) and (lo is Nil or lo <= 1):
                        cands.append(["max", True])
                    if not has("value") and fits(1):
                        cands.append(["__call__", True])
            elif kind == "StrSchema":
                val = p.get("value")
                if not has("pattern"):
                    if not (has("len") or has("min_len") or has("max_len")):
                        n = len(val) if val is not Nil else r.randint(0, 5)
                        cands.append(r.choice((["len", n], ["len", max(0, n - 1), n + 2], ["len", enc(...), n + 3], ["len", n, enc(...)])))
                    if not has("alphabet"):
                        cands.append(["alphabet", (val if val is not Nil else "") + "abcxyz"])
                    if not has("substr"):
                        cands.append(["contains", (val[:1] if (val is not Nil and val) else "")])
                if not any(has(n) for n in ("value", "len", "min_len", "max_len", "alphabet", "substr", "pattern")):
                    cands.append(["__call__", r.choice(("", "abc", "x y"))])
                    cands.append(["regex", r.choice(("[a-c]+", "\\d{2}", "x|y"))])
            elif kind == "ListSchema":
                if not (has("len") or has("min_len") or has("max_len")):
                    els = p.get("elements")
                    n = len([x for x in els if x is not ...]) if els is not Nil else r.randint(0, 3)
                    exact = els is not Nil and not any(x is ... for x in els)
                    cands.append(["len", n] if exact else r.choice((["len", n], ["len", enc(...), n + 2], ["len", 0, n + 2] if els is Nil else ["len", n])))
                if not (has("elements") or has("type") or has("len") or has("min_len") or has("max_len")):
                    cands.append(["__call__", {"$schema": self.pick_sid()}])
                    cands.append(["__call__", {"$schemas": [self.pick_sid() for _ in range(r.randint(0, 3))]}])
                    if r.random() < 0.2:
                        cands.append(["__call__", {"$schemas": [self.pick_sid(), [self.pick_sid(), self.pick_sid()]]}])
            elif kind == "DictSchema" and not has("keys"):
                cands.append(["__call__", {"$schemadict": [[enc(kk), r.random() < 0.3, self.pick_sid()] for kk in r.sample(("a", "b", "id"), r.randint(0, 3))]}])
            elif kind == "AnySchema" and not has("types"):
                cands.append(["__call__", {"$schema": self.pick_sid()}, {"$schema": self.pick_sid()}])
            elif kind == "BoolSchema" and not has("value"):
                cands.append(["__call__", r.random() < 0.5])
            elif kind == "BytesSchema" and not has("value"):
                cands.append(["__call__", enc(b"ab")])
        except Exception:
            return None
        if not cands:
            return None
        call = r.choice(cands)
        return {"op": "refine", "s": sid, "call": call, "out": self.new_id("s")}

    BIG_ALPHABETS = (
        "".join(chr(c) for c in range(0x391, 0x3ea) if c != 0x3a2),
        "".join(chr(c) for c in range(0x410, 0x470)),
        "".join(chr(c) for c in range(0xc0, 0x140)),
        "".join(chr(c) for c in range(0x21, 0x7f)),
        "".join(chr(c) for c in range(0x3041, 0x3097)),
    )

    def g_bigalpha(self):
        """str schemas over large, mutually disjoint alphabets (an alphabet is the biggest value a schema
        holds; whatever is derived from it and kept around must be keyed by content, not by address)."""
        r = self.r
        alpha = r.choice(self.BIG_ALPHABETS)
        n = r.randint(1, 6)
        w = "".join(r.choice(alpha) for _ in range(n))
        spec = {"t": "str", "alphabet": alpha, "len": ["range", 0, 8], "order": r.choice((["alphabet", "len"], ["len", "alphabet"]))}
        if r.random() < 0.5:
            spec = {"t": "list", "type": spec}
            w = [w]
        return {"op": "declare", "spec": spec, "witness": enc(w), "out": self.new_id("s")}

    def g_regex(self):
        """A regex str (incl. open-ended repeats with a minimum above the default cap, and now and then an
        unsupported construct, so that some fake() calls raise inside the shared regex generator)."""
        import re as _re
        r = self.r
        cfg = S.G.Cfg(r, depth=r.choice((1, 2)), budget=r.choice((64, 256)), p_neg=0.1, size=r.choice((1, 2)),
                      max_repeat=32, p_unsup=r.choice((0.0, 0.0, 0.4)))
        if r.random() < 0.12:
            # conditionals on an optional group (unsupported today: fake() raises): whatever a generator
            # remembers about groups between two generate() calls shows in the histories that follow
            pat = r.choice(("(<)?[a-c]{2}(?(1)>)", "(?P<g1><)?y(?(g1)>|!)", "(a)?(b)?(?(2)c|d)"))
            out = self.new_id("s")
            # ... and is generated from right away, under two draw schedules (group drawn / left out)
            self.queue = tuple({"op": "fake", "s": out, "how": "fake",
                                "schedule": {"policy": pol, "seed": r.getrandbits(32), "p": 0.3, "overrides": {}}} for pol in ("lo", "hi"))
            return {"op": "declare", "spec": {"t": "str", "regex": {"pattern": pat, "ast": {"k": "pat", "pre": None, "post": None, "body": {"k": "seq", "items": [{"k": "unsup", "text": pat}]}}}, "order": ["regex"]},
                    "out": out}
        for _ in range(12):
            ast = S.G.gen_pattern(cfg)
            if r.random() < 0.2:
                # an open-ended repeat whose minimum lies above the generator's default cap of 32
                high = {"k": "rep", "body": {"k": "lit", "c": r.choice("abx")}, "min": r.choice((33, 40, 50)),
                        "max": None, "lazy": r.random() < 0.3, "form": "{m,}"}
                tail = ast["body"].get("items", [])[:1] if ast["body"]["k"] == "seq" else []
                ast = {"k": "pat", "pre": None, "post": None, "body": {"k": "seq", "items": [high] + tail}}
            if not S.G.member_safe(ast):
                continue
            pat = S.G.render(ast)
            try:
                _re.compile(pat)
            except Exception:
                continue
            if r.random() < 0.25:
                pat = "(?i)" + pat          # an inline flag (ignored by the generator today)
                try:
                    _re.compile(pat)
                except Exception:
                    continue
            spec = {"t": "str", "regex": {"pattern": pat, "ast": ast}, "order": ["regex"]}
            return {"op": "declare", "spec": spec, "out": self.new_id("s")}
        return None

    def g_bare(self):
        """A bare type (nothing declared yet), so that refinements have something to build on."""
        r = self.r
        t = r.choice(("int", "float", "str", "list", "dict", "any", "bool", "bytes", "str", "int"))
        spec = {"t": t}
        if t in ("int", "float", "str"):
            spec["order"] = []
        return {"op": "declare", "spec": spec, "out": self.new_id("s")}

    def g_combine(self):
        r = self.r
        kind = r.choice(("+", "|", "any", "alias", "list_of", "list_elems", "dict_of", "make_required", "hooked", "hooked_index"))
        a = self.pick_sid()
        b = self.pick_sid()
        out = self.new_id("s")
        if kind in ("+",):
            da = self.pick_sid(lambda e: type(e.schema).__name__ == "DictSchema") or a
            db = self.pick_sid(lambda e: type(e.schema).__name__ == "DictSchema") or b
            return {"op": "combine", "kind": "+", "args": [{"$schema": da}, {"$schema": db}], "out": out}
        if kind in ("|", "any"):
            return {"op": "combine", "kind": kind, "args": [{"$schema": a}, {"$schema": b}], "out": out}
        if kind in ("alias", "list_of", "hooked", "hooked_index"):
            return {"op": "combine", "kind": kind, "args": [{"$schema": a}], "out": out}
        if kind == "list_elems":
            ids = [self.pick_sid() for _ in range(r.randint(0, 3))]
            if r.random() < 0.4:
                ids.insert(r.choice((0, len(ids))), "...")
            return {"op": "combine", "kind": kind, "args": [{"$schemas": ids}], "out": out}
        if kind == "dict_of":
            items = [[enc(kk), r.random() < 0.3, self.pick_sid()] for kk in r.sample(("a", "b", "c", "id", 7), r.randint(0, 3))]
            if r.random() < 0.3:
                items.append([enc("..."), False, "..."])
            return {"op": "combine", "kind": kind, "args": [{"$schemadict": items}], "out": out}
        da = self.pick_sid(lambda e: type(e.schema).__name__ == "DictSchema") or a
        e = self.m.schemas[da]
        try:
            ks = [k for k in e.schema.keys() if k is not ...]
        except Exception:
            ks = []
        sel = [k for k in ks if r.random() < 0.6]
        if r.random() < 0.2:
            sel.append("nonexisting")
        keys = None if r.random() < 0.3 else [enc(k) for k in sel]
        return {"op": "combine", "kind": "make_required", "args": [{"$schema": da}, enc(None) if keys is None else keys], "out": out}

    def g_substitute(self):
        sid = self.pick_sid()
        e = self.m.schemas[sid]
        return {"op": "substitute", "s": sid, "v": self.vspec(e), "how": self.r.choice(("%", "substitute")),
                "out": self.new_id("s"), "vout": self.new_id("v")}

    def g_from_native(self):
        return {"op": "from_native", "v": self.vspec(None), "out": self.new_id("s"), "vout": self.new_id("v")}

    def g_validate(self):
        sid = self.pick_sid()
        e = self.m.schemas[sid]
        return {"op": "validate", "s": sid, "v": self.vspec(e), "how": self.r.choice(("validate", "validate", "validate_or_fail", "eq", "ne")),
                "vout": self.new_id("v")}

    def g_eq_schema(self):
        return {"op": "eq_schema", "a": self.pick_sid(), "b": self.pick_sid()}

    def g_fake(self):
        r = self.r
        sched = {"policy": r.choice(("lo", "hi", "hi", "mid", "rnd", "alt", "mix")), "seed": r.getrandbits(32), "p": 0.3, "overrides": {}}
        sid = self.pick_sid()
        if r.random() < 0.3:
            sid = self.pick_sid(lambda e: type(e.schema).__name__ == "StrSchema") or sid
        return {"op": "fake", "s": sid, "how": r.choice(("fake", "invert")), "schedule": sched}

    def g_print(self):
        return {"op": "print", "s": self.pick_sid(), "how": self.r.choice(("repr", "represent"))}

    def g_read(self):
        r = self.r
        sid = self.pick_sid()
        e = self.m.schemas[sid]
        how = r.choice(("getitem", "keys", "iter", "props"))
        op = {"op": "read", "s": sid, "how": how}
        if how == "getitem":
            key = "a"
            try:
                ks = list(e.schema.keys())
                if ks and r.random() < 0.8:
                    key = r.choice(ks)
            except Exception:
                pass
            op["key"] = enc(key)
        return op

    def g_mutate(self):
        r = self.r
        m = self.m
        if not m.values:
            return None
        vid = r.choice(list(m.values))
        ve = m.values[vid]
        tgt = ve.value
        path = []
        # random descent into nested containers
        while r.random() < 0.5:
            if type(tgt) is list and tgt:
                i = r.randrange(len(tgt))
                if type(tgt[i]) in (list, dict):
                    path.append(enc(i))
                    tgt = tgt[i]
                    continue
            elif type(tgt) is dict and tgt:
                kk = r.choice(list(tgt))
                if type(tgt[kk]) in (list, dict) and type(kk) in (str, int):
                    path.append(enc(kk))
                    tgt = tgt[kk]
                    continue
            break
        is_decl = ve.role.startswith("declared")
        if is_decl and m.schemas and r.random() < 0.7:
            x = {"$schema": self.pick_sid()}
        else:
            x = enc(copy.deepcopy(r.choice(MUT_VALUES)))
        if type(tgt) is list:
            act = r.choice((["append", x], ["insert", 0, x], ["pop", -1], ["pop", 0], ["set", r.randrange(8), x], ["clear"], ["reverse"]))
            if not tgt and act[0] in ("pop", "set", "reverse", "clear"):
                act = ["append", x]
        elif type(tgt) is dict:
            ks = [kk for kk in tgt if type(kk) in (str, int)]
            act = r.choice((["set", enc(r.choice(("a", "b", "new", "id"))), x], ["del", enc(r.choice(ks))] if ks else ["set", enc("n"), x],
                            ["set", enc(r.choice(ks)), x] if ks else ["set", enc("n"), x], ["clear"], ["pop"]))
            if not tgt and act[0] in ("clear", "pop", "del"):
                act = ["set", enc("n"), x]
        else:
            return None
        return {"op": "mutate", "v": vid, "path": path, "action": act}

    def g_repeat(self):
        n = len(self.m.records)
        if n == 0:
            return None
        r = self.r
        # bias towards old operations
        ref = r.randrange(n) if r.random() < 0.5 else r.randrange(max(1, n // 2))
        return {"op": "repeat", "ref": ref, "rebuilt": r.random() < 0.4}


def wrap_hooked(spec, r):
    """Wrap the root or a random descendant of a spec into the forwarding custom type."""
    if r.random() < 0.4 or spec["t"] in S.SCALARS or spec["t"] == "op":
        return {"t": "hooked", "inner": spec}
    sp = copy.deepcopy(spec)
    t = sp["t"]
    if t == "list":
        if "type" in sp:
            sp["type"] = wrap_hooked(sp["type"], r)
        elif sp.get("elements"):
            idx = [i for i, e in enumerate(sp["elements"]) if e != "..."]
            if idx:
                i = r.choice(idx)
                sp["elements"][i] = wrap_hooked(sp["elements"][i], r)
            else:
                return {"t": "hooked", "inner": sp}
        else:
            return {"t": "hooked", "inner": sp}
    elif t == "dict" and any("s" in e for e in sp.get("keys", [])):
        es = [e for e in sp["keys"] if "s" in e]
        e = r.choice(es)
        e["s"] = wrap_hooked(e["s"], r)
    elif t == "any" and sp.get("types"):
        i = r.randrange(len(sp["types"]))
        sp["types"][i] = wrap_hooked(sp["types"][i], r)
    elif t == "alias":
        sp["inner"] = wrap_hooked(sp["inner"], r)
    else:
        return {"t": "hooked", "inner": sp}
    return sp


CANARIES = [
    ("canary1", {"t": "dict", "keys": [{"k": "id", "opt": False, "s": {"t": "int", "min": 1, "order": ["min"]}},
                                       {"k": "tags", "opt": True, "s": {"t": "list", "type": {"t": "str", "len": ["range", 1, 3], "order": ["len"]}}},
                                       {"ellipsis": True}]}, {"id": 5, "tags": ["ab"]}),
    ("canary2", {"t": "any", "types": [{"t": "none"}, {"t": "list", "elements": [{"t": "float", "precision": 2, "order": ["precision"]}, "..."]}]}, [1.25, "x"]),
]


class Prop(BaseProp):
    id = "C07"

    def setup(self):
        from d42 import fake, represent, substitute, validate, validate_or_fail
        from d42.declaration import register_type
        from d42.utils import from_native
        from d42.validation import Formatter
        self.env = S.Env()
        self.fake, self.validate, self.represent, self.substitute = fake, validate, represent, substitute
        self.validate_or_fail = validate_or_fail
        self.from_native = from_native
        self.formatter = Formatter()
        self.Hooked = make_hooked_class()
        register_type("hooked", self.Hooked)      # public registration API, once per process
        self.env.Hooked = self.Hooked
        self.known = self.args.get("known", [])

    # ------------------------------------------------------------ cases
    def gen_case(self, labels, cfg):
        r = _real_random.Random(derive(*labels, "case"))
        every = cfg.get("rerun_every", 1)
        return {"mode": "generate", "seed": derive(*labels, "hist"), "steps": r.randint(cfg.get("min_steps", 20), cfg.get("max_steps", 60)),
                "rerun": ((labels[-1] // 16) % every == 0) if isinstance(labels[-1], int) else True}   # per sweep worker: every n-th of *its* histories

    def _knobs(self, r):
        k = S.Knobs(r)
        k.depth = r.choice((0, 1, 2, 2, 3))
        k.p_regex = r.choice((0.0, 0.1))
        k.p_hooked = r.choice((0.0, 0.3, 0.6))
        return k

    def run_history(self, case):
        """-> (machine, violation_exc | None, failing_op).  A history that ends without a violation is
        executed a second time from scratch in the same interpreter (new machine, new schemas, the same
        operations): 'repeating an operation on equal inputs gives equal results regardless of what was
        executed in between' -- here everything the first pass did lies in between."""
        m, v, op = self.run_pass(case)
        if v is not None or not case.get("rerun", True):
            return m, v, op
        # the second pass also runs in a shifted ambient state (another local time zone, a coarse decimal
        # context with traps): settings an application may have changed and no d42 result may depend on
        from .world import ambient_shift
        with ambient_shift():
            m2, v2, op2 = self.run_pass(case)
        self.probes["history_rerun_in_same_process"] += 1
        self.probes["fault:ambient_shift(tz,decimal)"] += 1
        if v2 is not None:
            v2.detail = "only in the second pass over the same history in one interpreter: " + v2.detail
            return m2, v2, op2
        for i, (a, b) in enumerate(zip(m.outcomes, m2.outcomes)):
            if a != b:
                o = m2.oplog[i]
                vv = Violation("I3:history_not_repeatable_in_process", o["op"], o.get("how", o.get("kind", "")),
                               "op #%d %s gave %s in the first pass over this history and %s in the second pass (same interpreter, fresh machine)" % (
                                   i, describe(o), str(a)[:160], str(b)[:160]), sorted(m2.fault_tags))
                m2.oplog = m2.oplog[:i + 1]
                m2.outcomes = m2.outcomes[:i + 1]
                return m2, vv, o
        return m, None, None

    def run_pass(self, case):
        m = Machine(self)
        CTL.disarm()
        for sid, spec, w in CANARIES:
            m.run_op({"op": "declare", "spec": spec, "witness": enc(w), "out": sid})
        m.schemas = dict(m.schemas)
        self.world.begin(Schedule("mid", seed=0), 0)
        if case["mode"] == "generate":
            r = _real_random.Random(case["seed"])
            g = OpGen(r, m, self._knobs(r))
            for _ in range(case["steps"]):
                op = g.next()
                try:
                    m.exec_step(op)
                except Violation as v:
                    return m, v, op
        else:
            for op in case["ops"]:
                try:
                    m.exec_step(copy.deepcopy(op))
                except Violation as v:
                    return m, v, op
        return m, None, None

    def _violation(self, case, m, v, op):
        after = op["op"]
        if after == "mutate":
            ve = m.values.get(op["v"])
            after = "mutate:" + (ve.role if ve is not None else "?")
        sig = {"property": "C07", "invariant": v.invariant, "component": v.component, "after_op": after}
        script = {"mode": "script", "ops": [strip(o) for o in m.oplog] + ([strip(op)] if (not m.oplog or m.oplog[-1] is not op) else [])}
        vv = self.make_violation("C07", sig, script, {"policy": "-"}, v.detail,
                                 {"features": sorted(set(v.features) | {"kind:" + str(v.kind), "op:" + describe(op).split("+")[0]}), "event_digest": fast_digest([m.outcomes, v.detail]),
                                  "history_len": len(script["ops"])})
        vv["kf"] = classify(vv, self.known)
        return vv

    def run_case(self, case):
        m, v, op = self.run_history(case)
        p = self.probes
        for t in m.fault_tags:
            p["fault:" + t] += 1
        kinds = tuple(describe(o) for o in m.oplog)
        keys = {derive(kinds, tuple(sorted(m.fault_tags))) & 0xFFFFFFFFFFFF}
        violations = [self._violation(case, m, v, op)] if v is not None else []
        sample = {"history": [describe(o) for o in m.oplog][:60], "faults": sorted(m.fault_tags)}
        d = fast_digest(m.outcomes)
        # a history is comparable across hash seeds unless it touches something that legitimately
        # depends on string hashing on the current tree: a regex with a negated class (KF-C17-1), or a
        # set/frozenset value (CPython prints sets in hash order, and error messages print values)
        import json as _json
        text = _json.dumps(m.oplog, default=str)
        hs_sensitive = ("[^" in text) or ("$set" in text) or ("$frozenset" in text) or ("class_neg" in text) or ('"neg": true' in text) \
            or ('"alphabet_as": "set"' in text) or ('"alphabet_as": "frozenset"' in text)
        # (messages quote the refused value and Python prints equal sets in hash order: every way a set can
        # enter a history -- values, a set-typed alphabet -- makes it hs_sensitive above)
        d_hs = d
        # rare ingredients of this history (the parent re-runs a sample of histories alone in new
        # interpreters, rarest tags first)
        tags = set()
        if "(?(" in text:
            tags.add("regex_conditional")
        if '"k": "unsup"' in text:
            tags.add("regex_unsupported")
        if "(?i" in text:
            tags.add("regex_inline_flag")
        if '"kw"' in text:
            tags.add("keyword_arguments")
        if "$tuple" in text or "$set" in text or "$frozenset" in text:
            tags.add("odd_container_value")
        if "$defaultdict" in text or "$ordereddict" in text:
            tags.add("dict_subclass_value")
        cond = set()
        for o, oc in zip(m.oplog, m.outcomes):
            if o["op"] == "declare" and "(?(" in _json.dumps(o.get("spec"), default=str):
                cond.add(o["out"])
            if o["op"] == "fake" and o.get("s") in cond:
                tags.add("faked_regex_conditional:" + oc[0])
            if oc[0] == "raise" and o["op"] in ("fake", "substitute", "from_native", "validate"):
                tags.add("raised_in:" + o["op"])
            if o.get("hook"):
                tags.add("hook:" + o["hook"]["action"])
        return {"executions": max(1, len(m.oplog)), "violations": violations, "keys": keys,
                "digest": d, "digest_hs": None if hs_sensitive else d_hs, "sample": sample, "tags": sorted(tags)}

    # ------------------------------------------------------------ shrink / replay
    def check_single(self, case, schedule_json, sig_id, kf="__any__"):
        m, v, op = self.run_history(case)
        if v is None:
            return None
        vv = self._violation(case, m, v, op)
        if sig_id is not None and vv["sig_id"] != sig_id:
            return None
        if kf != "__any__" and vv["kf"] != kf:
            return None
        return vv

    def minimise(self, v, budget_s=15, max_exec=600):
        self._kf_target = v.get("kf")
        return super().minimise(v, budget_s, 600)

    def check_for_minimise(self, case, sched, sig_id):
        return self.check_single(case, sched, sig_id, kf=self._kf_target)

    def shrink_candidates(self, v):
        case, sched = v["case"], v["schedule"]
        ops = case["ops"]
        n = len(ops)
        # ddmin-style: drop chunks, then single ops (ops whose operands vanish are skipped at run time)
        size = n // 2
        while size >= 1:
            for start in range(0, n, size):
                cand = ops[:start] + ops[start + size:]
                if len(cand) < n:
                    yield dict(case, ops=fix_repeats(cand, ops)), sched
            size //= 2
        # simplify individual ops
        for i, op in enumerate(ops):
            if op.get("hook"):
                o2 = dict(op)
                o2.pop("hook")
                yield dict(case, ops=ops[:i] + [o2] + ops[i + 1:]), sched
            if op["op"] == "declare":
                for sp in S.shrink_spec(op["spec"]):
                    o2 = dict(op, spec=copy.deepcopy(sp))
                    o2.pop("witness", None)
                    yield dict(case, ops=ops[:i] + [o2] + ops[i + 1:]), sched
            if op["op"] == "mutate" and op["path"]:
                pass
            if "v" in op and isinstance(op["v"], dict) and "new" in op["v"]:
                for sv in S.shrink_value(dec(op["v"]["new"])):
                    try:
                        o2 = dict(op, v={"new": enc(sv)})
                    except Exception:
                        continue
                    yield dict(case, ops=ops[:i] + [o2] + ops[i + 1:]), sched


def fix_repeats(cand, orig):
    """'repeat' ops refer to op indices: remap them after deletions (drop those whose target went)."""
    final = []
    idx_map = {}
    for o in cand:
        if o["op"] == "repeat":
            tgt = orig[o["ref"]] if o["ref"] < len(orig) else None
            if tgt is not None and id(tgt) in idx_map:
                final.append(dict(o, ref=idx_map[id(tgt)]))
                idx_map[id(o)] = len(final) - 1
            continue
        idx_map[id(o)] = len(final)
        final.append(o)
    return final


def strip(op):
    return {k: v for k, v in op.items() if not k.startswith("_")}
