"""C01 — generated data always validates against its own schema."""
import copy
import random as _real_random
import sys

from . import specs as S
from .base import BaseProp
from .core import canon, dec, derive, enc, fast_digest
from .known import classify
from .base import simpler_policies as _simpler_policies
from .world import DrawCapExceeded, Schedule, gen_clock


def iter_nodes(schema, depth=0):
    """All schema objects reachable through public props."""
    from niltype import Nil
    yield schema, depth
    p = schema.props
    kind = type(schema).__name__
    try:
        if kind == "ListSchema":
            if p.get("type") is not Nil:
                yield from iter_nodes(p.get("type"), depth + 1)
            if p.get("elements") is not Nil:
                for e in p.get("elements"):
                    if e is not ... and hasattr(e, "props"):
                        yield from iter_nodes(e, depth + 1)
        elif kind == "DictSchema":
            if p.get("keys") is not Nil:
                for kk, (vs, opt) in p.get("keys").items():
                    if kk is not ... and hasattr(vs, "props"):
                        yield from iter_nodes(vs, depth + 1)
        elif kind == "AnySchema":
            if p.get("types") is not Nil:
                for t in p.get("types"):
                    yield from iter_nodes(t, depth + 1)
        elif "TypeAlias" in kind:
            yield from iter_nodes(p.type, depth + 1)
    except Exception:
        return


class PartnerCorrupted(Exception):
    """The other caller of an interleaved pair got something that is not a value of *its* schema."""


class Prop(BaseProp):
    id = "C01"

    def setup(self):
        from d42 import fake, schema, validate
        from d42.generation import Generator, Random, RegexGenerator
        self.env = S.Env()
        self.fake = fake
        self.schema = schema
        self.validate = validate
        self.Generator, self.Random, self.RegexGenerator = Generator, Random, RegexGenerator
        self.known = self.args.get("known", [])

    # ------------------------------------------------------------ cases
    def gen_case(self, labels, cfg):
        r = _real_random.Random(derive(*labels, "case"))
        k = S.Knobs(r)
        k.p_placeholder = r.choice((0.0, 0.3, 0.6))
        k.p_regex_narrow = 0.06 if k.p_regex else 0.0
        spec, w = S.gen(r, k)
        route = r.choice(("fake", "fake", "invert", "generator"))
        case = {"spec": spec, "witness": enc(w), "route": route,
                "max_repeat": r.choice((32, 1, 8, 64)),
                "letters": r.choice((None, None, None, "abcdefghijklmnopqrstuvwxyz", "ab01_ -")) if not S.hash_seed_sensitive(spec) else None,
                "seed": derive(*labels, "sched"), "m": cfg["m_seeded"], "flip_n": cfg["flip_n"],
                "clock_seed": derive(*labels, "clock")}
        return case

    def _partner(self):
        if getattr(self, "_partner_schema", None) is None:
            sc = self.schema
            self._partner_schema = sc.dict({
                "id": sc.int.min(1).max(9),
                "tags": sc.list(sc.str.alphabet("xy").len(3)).len(2),
                "f": sc.float.min(0.0).max(1.0).precision(2),
                "r": sc.str.regex(r"[ab]{2}-\d"),
                "any": sc.any(sc.none, sc.bool),
            })
        return self._partner_schema

    def _generate_pair(self, sch, case):
        """Two logical callers share the generator (fake() / ~ : the module-level one; otherwise one
        Generator instance): caller 0 generates from the case's schema, caller 1 from a fixed partner
        schema, interleaved at draw granularity (sim.interleave).  Each must get a value of *its* schema."""
        from .interleave import Interleaver
        route = case["route"]
        partner = self._partner()
        if route == "fake":
            f0, f1 = (lambda: self.fake(sch)), (lambda: self.fake(partner))
        elif route == "invert":
            f0, f1 = (lambda: ~sch), (lambda: ~partner)
        else:
            rnd = self.Random()
            letters = case.get("letters")
            rg = self.RegexGenerator(rnd, max_repeat=case["max_repeat"], alphabet={"letters": letters} if letters else None)
            gen = self.Generator(rnd, rg)
            f0, f1 = (lambda: sch.__accept__(gen)), (lambda: partner.__accept__(gen))
        il = Interleaver(self.world, case["pair"]["switch_seed"])
        (k0, r0), (k1, r1) = il.run([f0, f1])
        self.probes["pair:baton_switches"] += il.switches
        if k1 == "raise" and not isinstance(r1, (DrawCapExceeded, RecursionError)):
            raise PartnerCorrupted("partner raised %s: %s" % (type(r1).__name__, str(r1)[:100]))
        if k1 == "ok" and self.validate(partner, r1).has_errors():
            raise PartnerCorrupted("partner got %s" % canon(r1)[:160])
        if k0 == "raise":
            raise r0
        return r0

    def _generate(self, sch, case):
        if case.get("pair"):
            return self._generate_pair(sch, case)
        route = case["route"]
        if route == "fake":
            return self.fake(sch)
        if route == "invert":
            return ~sch
        rnd = self.Random()
        letters = case.get("letters")
        rg = self.RegexGenerator(rnd, max_repeat=case["max_repeat"], alphabet={"letters": letters} if letters else None)
        gen = self.Generator(rnd, rg)
        return sch.__accept__(gen)

    # ------------------------------------------------------------ one execution
    def execute(self, sch, case, schedule):
        """-> dict(outcome, detail, culprit(kind, feats) | None, value)"""
        w = self.world
        w.begin(schedule, derive(case["seed"], schedule.seed))
        try:
            g = self._generate(sch, case)
        except DrawCapExceeded:
            return {"outcome": "skip:draw_cap"}
        except RecursionError:
            return {"outcome": "skip:recursion"}
        except PartnerCorrupted as e:
            return {"outcome": "pair:partner_corrupted", "phase": "fake", "detail": str(e), "culprit": ("?", ["pair"])}
        except Exception as e:
            c = S.culprit_from_traceback(sys.exc_info()[2])
            return {"outcome": "raise:" + type(e).__name__, "phase": "fake",
                    "detail": "%s: %s" % (type(e).__name__, str(e)[:200]),
                    "culprit": S.feat(c) if c is not None else ("?", [])}
        finally:
            self.note_clock()
        try:
            res = self.validate(sch, g)
            errs = res.get_errors()
        except Exception as e:
            c = S.culprit_from_traceback(sys.exc_info()[2])
            return {"outcome": "validate_raise:" + type(e).__name__, "phase": "validate",
                    "detail": "%s: %s; generated=%s" % (type(e).__name__, str(e)[:120], canon(g)[:200]),
                    "culprit": S.feat(c) if c is not None else ("?", []), "value": g}
        if errs:
            c = S.localise_invalid(sch, g, self.validate)
            return {"outcome": "invalid:" + type(errs[0]).__name__, "phase": "validate",
                    "detail": "generated=%s errors=%s" % (canon(g)[:200], [type(e).__name__ for e in errs][:4]),
                    "culprit": S.feat(c), "value": g}
        return {"outcome": "ok", "value": g}

    def _violation(self, case, schedule, out):
        kind, feats = out["culprit"]
        sig = {"property": "C01", "phase": out["phase"], "outcome": out["outcome"], "kind": kind}
        v = self.make_violation("C01", sig, case, schedule, out["detail"],
                                {"features": feats,
                                 "event_digest": fast_digest([self.world.log, out["outcome"]])})
        v["kf"] = classify(v, self.known)
        return v

    # ------------------------------------------------------------ a whole case
    def run_case(self, case):
        try:
            sch = S.build(case["spec"], self.env)
        except S.BuildError as e:
            self.probes["discard:" + str(e).split(":")[0]] += 1
            return {"executions": 0, "violations": [], "keys": set(), "digest": "discard", "discarded": True}
        witness = dec(case["witness"])
        sat = False
        try:
            sat = not self.validate(sch, witness).has_errors()
        except Exception:
            sat = False
        if sat:
            self.probes["sat_by_witness"] += 1
        has_clock = S.has_unfixed_clock(case["spec"])
        shape = S.shape(case["spec"])
        hs_sensitive = S.hash_seed_sensitive(case["spec"])
        failures = []
        keys = set()
        digests = []
        n = [0]
        any_ok = [False]
        sample = {}

        def run(schedule):
            if has_clock:
                rr = _real_random.Random(derive(case["clock_seed"], n[0] % 5))
                schedule.clock = gen_clock(rr).to_json()
                schedule.entropy = ("rnd", "zero", "ones")[n[0] % 3]
            out = self.execute(sch, case, schedule)
            n[0] += 1
            oc = out["outcome"]
            self.probes["outcome:" + oc.split(":")[0]] += 1
            log = self.world.log
            sites = tuple(sorted(set((e[5], e[3]) for e in log)))
            if log:
                keys.add(derive(shape, sites) & 0xFFFFFFFFFFFF)
            digests.append(fast_digest([log, oc, None if hs_sensitive else canon(out.get("value"))]))
            if oc == "ok":
                any_ok[0] = True
                if not sample:
                    sample.update({"schema": repr_short(sch), "route": case["route"],
                                   "schedule": schedule.to_json(), "generated": canon(out["value"])[:300],
                                   "draws": self.world.draws, "outcome": oc})
            elif not oc.startswith("skip:"):
                failures.append((schedule, out, case))
            if "value" in out:
                from .p_c17 import scribble
                scribble(out["value"])      # the caller owns the value; later generations must not show the edits
            return self.world.draws

        self.schedule_plan(run, case["seed"], case["m"], case["flip_n"])
        # two callers sharing the generator, interleaved at draw points (2 interleavings per case)
        solo = case
        for j in range(2):
            case = dict(solo, pair={"switch_seed": derive(solo["seed"], "pair", j)})
            run(Schedule("rnd" if j else "mix", seed=derive(solo["seed"], "pairsched", j)))
            self.probes["pair:executions"] += 1
        case = solo
        self._case_probes(sch)
        violations = []
        if failures:
            if sat or any_ok[0]:
                for schedule, out, fcase in failures:
                    # re-run to have the log of exactly this execution for the digest
                    violations.append(self._violation_rerun(sch, fcase, schedule))
                violations = [v for v in violations if v is not None]
            else:
                self.probes["unverified_sat_with_failures"] += 1
        if not sat and any_ok[0]:
            self.probes["sat_by_generation_only"] += 1
        if not sat and not any_ok[0]:
            self.probes["unverified_sat"] += 1
        return {"executions": n[0], "violations": violations, "keys": keys,
                "digest": fast_digest(digests), "sample": sample}

    def _violation_rerun(self, sch, case, schedule):
        out = self.execute(sch, case, schedule)
        if out["outcome"] == "ok" or out["outcome"].startswith("skip:"):
            return None
        return self._violation(case, schedule, out)

    def _case_probes(self, sch):
        p = self.probes
        for node, depth in iter_nodes(sch):
            kind, feats = S.feat(node)
            p["node:" + kind] += 1
            fs = set(feats)
            if "min>default_max" in fs or "max<default_min" in fs:
                p["bound_beyond_default"] += 1
            if "len>default_max" in fs:
                p["min_len>default_max"] += 1
            if kind == "FloatSchema" and "precision" in fs:
                if "min_negative" in fs or "max_negative" in fs:
                    p["precision_with_negative_bound"] += 1
                if "min_off_grid" in fs or "max_off_grid" in fs:
                    p["precision_bound_off_grid"] += 1
            if kind == "ListSchema" and fs & {"ellipsis_head", "ellipsis_tail", "ellipsis_body"} and fs & {"len", "min_len", "max_len"}:
                p["ellipsis+len"] += 1
            if "alphabet_empty" in fs:
                p["len0_alphabet"] += 1
            if depth >= 3:
                p["depth>=3"] += 1

    # ------------------------------------------------------------ shrink / replay
    def check_single(self, case, schedule_json, sig_id, kf="__any__"):
        try:
            sch = S.build(case["spec"], self.env)
        except S.BuildError:
            return None
        sched = Schedule.from_json(schedule_json)
        out = self.execute(sch, case, sched)
        if out["outcome"] == "ok" or out["outcome"].startswith("skip:"):
            return None
        v = self._violation(case, sched, out)
        if sig_id is not None and v["sig_id"] != sig_id:
            return None
        if kf != "__any__" and v["kf"] != kf:
            return None
        # satisfiability must still be *verified* for the shrunk schema
        if not self._sat(sch, case):
            return None
        return v

    def _sat(self, sch, case):
        try:
            if not self.validate(sch, dec(case["witness"])).has_errors():
                return True
        except Exception:
            pass
        # any schedule producing an accepted value verifies satisfiability
        for pol in ("lo", "hi", "mid", "rnd", "alt"):
            self.world.begin(Schedule(pol, seed=1), 1)
            try:
                g = self._generate(sch, case)
                if not self.validate(sch, g).has_errors():
                    return True
            except Exception:
                continue
        # a witness re-derived from the (shrunk) spec
        try:
            w = S.witness_of(case["spec"], _real_random.Random(0))
            if not self.validate(sch, w).has_errors():
                return True
        except Exception:
            pass
        return False

    def minimise(self, v, budget_s=15, max_exec=2000):
        self._kf_target = v.get("kf")
        return super().minimise(v, budget_s, max_exec)

    def shrink_candidates(self, v):
        case, sched = v["case"], v["schedule"]
        for pol in _simpler_policies(sched):
            yield case, dict(sched, policy=pol, overrides={}, sites={})
        if sched["overrides"]:
            for kk in list(sched["overrides"]):
                o = dict(sched["overrides"])
                del o[kk]
                yield case, dict(sched, overrides=o)
        if sched.get("clock"):
            c = dict(sched)
            c.pop("clock")
            yield case, c
        if case["route"] != "fake":
            yield dict(case, route="fake"), sched
        for sp in S.shrink_spec(case["spec"]):
            try:
                w = S.witness_of(sp, _real_random.Random(0))
            except Exception:
                w = dec(case["witness"])
            yield dict(case, spec=copy.deepcopy(sp), witness=enc(w)), sched

    def check_for_minimise(self, case, sched, sig_id):
        return self.check_single(case, sched, sig_id, kf=self._kf_target)


def repr_short(sch):
    try:
        from d42 import represent
        r = represent(sch)
    except Exception:
        try:
            r = repr(sch)
        except Exception as e:      # a malformed schema (e.g. `...` where a schema belongs) cannot be printed
            r = "<unprintable %s: %s>" % (type(sch).__name__, type(e).__name__)
    return r if len(r) < 400 else r[:400] + "..."
