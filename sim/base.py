"""Base class of a property executor (runs inside a worker)."""
import time

from .core import derive, digest
from .world import Schedule, World, install


class Counter(dict):
    def __missing__(self, k):
        return 0


class BaseProp:
    id = "C00"
    use_sim_prng = True

    def init(self, args):
        self.args = args
        self.probes = Counter()
        self.world = World()
        self.patched = install(self.world, prng=self.use_sim_prng)
        self.sim_seconds = 0.0
        self.clock_fired = Counter()
        self.setup()

    def setup(self):
        pass

    # ---- reporting
    def world_stats(self):
        w = self.world
        table = {}
        for (site, kind, sel), n in w.site_table.items():
            table["%s|%s|%s" % (site, kind, sel)] = n
        return {"stats": dict(w.stats), "site_table": table, "patched": self.patched,
                "sim_seconds": self.sim_seconds, "clock_fired": dict(self.clock_fired)}

    def note_clock(self):
        c = self.world.clock
        if c.reads:
            self.sim_seconds += c.span_seconds()
            for k, v in c.fired.items():
                self.clock_fired[k] += v
            self.clock_fired["reads"] += c.reads

    # ---- schedule exploration
    def schedule_plan(self, run, case_seed, m_seeded, flip_n, extra_flips=4, pair_n=6, site_n=6):
        """Call run(schedule) for lo, hi, alt, alt2, single flips, seeded and mixed schedules.

        `run` must return the number of draws the execution consumed.
        """
        n_lo = run(Schedule("lo", seed=derive(case_seed, "lo")))
        sites_lo = self._sites_seen()
        n_hi = run(Schedule("hi", seed=derive(case_seed, "hi")))
        sites_hi = self._sites_seen()
        if max(n_lo, n_hi) == 0:
            return
        run(Schedule("alt", seed=derive(case_seed, "alt")))
        run(Schedule("alt2", seed=derive(case_seed, "alt2")))
        run(Schedule("lo1", seed=derive(case_seed, "lo1")))      # every draw one above its minimum
        run(Schedule("hi1", seed=derive(case_seed, "hi1")))      # every draw one below its maximum
        r = None
        for i in range(min(n_lo, flip_n)):
            run(Schedule("lo", seed=derive(case_seed, "flo", i), overrides={i: "hi"}))
        for i in range(min(n_hi, flip_n)):
            run(Schedule("hi", seed=derive(case_seed, "fhi", i), overrides={i: "lo"}))
        # every pair of draws flipped, while the execution is small enough for that
        if 2 <= n_lo <= pair_n:
            for i in range(n_lo):
                for j in range(i + 1, n_lo):
                    run(Schedule("lo", seed=derive(case_seed, "plo", i, j), overrides={i: "hi", j: "hi"}))
        if 2 <= n_hi <= pair_n:
            for i in range(n_hi):
                for j in range(i + 1, n_hi):
                    run(Schedule("hi", seed=derive(case_seed, "phi", i, j), overrides={i: "lo", j: "lo"}))
        # all draws of one site (or of one kind) flipped together: "every list maximal, every string minimal"
        sites = sorted(set(sites_lo) | set(sites_hi))
        if len(sites) >= 2:
            for sname in sites[:site_n]:
                run(Schedule("lo", seed=derive(case_seed, "slo", sname), sites={sname: "hi"}))
                run(Schedule("hi", seed=derive(case_seed, "shi", sname), sites={sname: "lo"}))
        if extra_flips and (n_lo > flip_n or n_hi > flip_n):
            import random
            r = random.Random(derive(case_seed, "xflips"))
            for _ in range(extra_flips):
                if n_lo > flip_n:
                    run(Schedule("lo", seed=0, overrides={r.randrange(flip_n, n_lo): "hi"}))
                if n_hi > flip_n:
                    run(Schedule("hi", seed=0, overrides={r.randrange(flip_n, n_hi): "lo"}))
        for j in range(m_seeded):
            run(Schedule("rnd", seed=derive(case_seed, "rnd", j)))
            run(Schedule("mix", seed=derive(case_seed, "mix", j), p=(0.15, 0.4, 0.7)[j % 3]))

    def _sites_seen(self):
        log = self.world.log or ()
        out = []
        for e in log:
            if e[1] in ("utcnow", "now", "today", "uuid4", "seed"):
                continue
            if e[5] not in out:
                out.append(e[5])
            k = "kind:" + e[1]
            if k not in out:
                out.append(k)
        return out

    # ---- violations
    @staticmethod
    def make_violation(prop, sig, case, schedule, detail, extra=None):
        v = {"property": prop, "signature": sig, "sig_id": digest(sig), "case": case,
             "schedule": schedule.to_json() if isinstance(schedule, Schedule) else schedule,
             "detail": detail}
        if extra:
            v.update(extra)
        return v

    # ---- minimisation: greedy tree surgery, keep candidates that still give the same signature
    def minimise(self, v, budget_s=15, max_exec=2000):
        t_end = time.time() + budget_s
        best = v
        n = 0
        check = getattr(self, "check_for_minimise", None) or self.check_single
        improved = True
        while improved and time.time() < t_end and n < max_exec:
            improved = False
            for cand_case, cand_sched in self.shrink_candidates(best):
                n += 1
                if time.time() >= t_end or n >= max_exec:
                    break
                try:
                    got = check(cand_case, cand_sched, best["sig_id"])
                except Exception:
                    got = None
                if got is not None:
                    got["case_index"] = v.get("case_index")
                    best = got
                    improved = True
                    break
        best["minimise_execs"] = n
        best["original_case_size"] = len(repr(v["case"]))
        best["minimised_case_size"] = len(repr(best["case"]))
        return best

    def shrink_candidates(self, v):
        return ()

    def check_single(self, case, schedule_json, sig_id):
        """Re-execute exactly one (case, schedule); return the violation with sig_id or None."""
        raise NotImplementedError

    def replay(self, rep):
        v = rep["violation"]
        got = self.check_single(v["case"], v["schedule"], v["sig_id"])
        if got is None:
            return {"reproduced": False}
        return {"reproduced": True, "same_digest": got.get("event_digest") == v.get("event_digest"),
                "violation": got}

    def run_directed(self, ent):
        """ent = known-findings entry with a 'directed' {case, schedule}; returns {'fails': bool,...}"""
        d = ent["directed"]
        got = self.check_single(d["case"], d["schedule"], None)
        if got is None:
            return {"fails": False}
        return {"fails": True, "signature": got["signature"], "detail": got["detail"],
                "violation": got}


def simpler_policies(sched):
    """Strictly simpler schedules to try while shrinking: lo < hi < anything else (no ping-pong)."""
    pol, ov = sched["policy"], sched.get("overrides") or sched.get("sites")
    if pol == "lo" and not ov:
        return ()
    if pol == "hi" and not ov:
        return ("lo",)
    return ("lo", "hi")
