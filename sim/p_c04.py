"""C04 — substitution pins the given value into the schema."""
import copy
import math
import random as _real_random
import sys
from datetime import date, datetime, timedelta
from uuid import UUID

from . import specs as S
from .base import BaseProp
from .base import simpler_policies as _simpler_policies
from .core import canon, dec, derive, enc, fast_digest
from .known import classify
from .p_c01 import iter_nodes, repr_short
from .world import DrawCapExceeded, Schedule, gen_clock


# ------------------------------------------------------------------ value helpers

def scalar_eq(g, v):
    if isinstance(v, float) and isinstance(g, float):
        if v != v and g != g:
            return True
        return g == v or math.isclose(g, v)
    if type(v) in (list, dict) or type(g) in (list, dict):
        return False
    try:
        return bool(g == v)
    except Exception:
        return False


def carries(g, v, path=()):
    """None if g carries v at every position given in v, else the path of the first mismatch."""
    if type(v) is dict:
        if type(g) is not dict:
            return path
        for k, x in v.items():
            if k not in g:
                return path + (k,)
            r = carries(g[k], x, path + (k,))
            if r is not None:
                return r
        return None
    if type(v) is list:
        if type(g) is not list or len(g) != len(v):
            return path
        for i, x in enumerate(v):
            r = carries(g[i], x, path + (i,))
            if r is not None:
                return r
        return None
    return None if scalar_eq(g, v) else path


def positions(v, path=()):
    """All positions of a plain value (containers and leaves)."""
    yield path
    if type(v) is dict:
        for k, x in v.items():
            yield from positions(x, path + (k,))
    elif type(v) is list:
        for i, x in enumerate(v):
            yield from positions(x, path + (i,))


def get_at(v, path):
    for p in path:
        v = v[p]
    return v


def set_at(v, path, new):
    if not path:
        return new
    v = copy.copy(v)
    v[path[0]] = set_at(v[path[0]], path[1:], new)
    return v


def del_at(v, path):
    v = copy.copy(v)
    if len(path) == 1:
        if type(v) is dict:
            del v[path[0]]
        else:
            v.pop(path[0])
        return v
    v[path[0]] = del_at(v[path[0]], path[1:])
    return v


def far_from(x, r):
    """A value that differs from x by far more than any validator tolerance."""
    if x is None:
        return r.choice((0, "none", False))
    if x is True or x is False:
        return not x
    t = type(x)
    if t is int:
        return r.choice((x + 1, x - 1, x + 1000, "s", None))
    if t is float:
        if x != x or x in (math.inf, -math.inf):
            return r.choice((0.0, "s", None))
        return r.choice((x + 1.0 + abs(x), x - 1.0 - abs(x), "s", None))
    if t is str:
        return r.choice((x + "x", "x" + x, x[:-1] if x else "y", 7, None))
    if t is bytes:
        return r.choice((x + b"x", b"", "s")) if x else b"x"
    if t is UUID:
        return UUID(int=(x.int ^ 0xFF), version=4)
    if t is datetime:
        from datetime import timezone
        twin = x.replace(tzinfo=None) if x.tzinfo is not None else x.replace(tzinfo=timezone.utc)
        return r.choice((x + timedelta(seconds=1), twin, x.replace(microsecond=(x.microsecond + 1) % 10 ** 6),
                         x.date()))                                 # the same calendar day, but a plain date
    if t is date:
        return r.choice((x + timedelta(days=1), datetime(x.year, x.month, x.day, 12, 0), datetime(x.year, x.month, x.day)))
    if t is list:
        return r.choice((x + [None], x[:-1] if x else [0], "s", {}))
    if t is dict:
        return r.choice(("s", [], None))
    return None


def subtyped(w, r):
    """The witness with leaves replaced by instances of a *subclass* of the expected type that the type
    check lets through: a datetime (with a time of day) where a date stands, a bool where 0 / 1 stands."""
    from datetime import time
    t = type(w)
    if t is date:
        return datetime.combine(w, r.choice((time(13, 37, 5), time(0, 0), time(23, 59, 59, 999999))))
    if t is int and w in (0, 1) and r.random() < 0.5:
        return bool(w)
    if t is list:
        return [subtyped(x, r) for x in w]
    if t is dict:
        return {k: subtyped(x, r) for k, x in w.items()}
    return w


def lookalike(w, r):
    """The witness with some leaves in the other common spelling of the same datum (what arrives from JSON,
    a form, a database driver): a uuid / datetime / date as its string, an int as a float or a string, bytes
    as bytearray or str.  Refused at typed positions today (the case is discarded); explored where accepted."""
    t = type(w)
    if t is list:
        return [lookalike(x, r) for x in w]
    if t is dict:
        return {k: lookalike(x, r) for k, x in w.items()}
    if r.random() < 0.4:
        return w
    if t is UUID:
        return r.choice((str(w), w.hex, str(w).upper()))
    if t is datetime or t is date:
        return w.isoformat()
    if t is int:
        return r.choice((float(w), str(w)))
    if t is float and w == w and abs(w) < 1e15 and w == int(w):
        return int(w)
    if t is bytes:
        return r.choice((bytearray(w), w.decode("latin1")))
    if t is str:
        return w.encode("utf-8", "surrogatepass")
    return w


def perturb(w, r):
    ps = list(positions(w))
    p = r.choice(ps)
    return set_at(w, p, far_from(get_at(w, p), r))


UNRELATED = (None, True, 0, 1, -1, 2.5, "", "abc", [], [1, "a"], {}, {"a": 1}, {"id": 1, "name": "x"}, b"x",
             [[1], [2]], {"a": {"b": {"c": 1}}}, float("nan"), float("inf"), 10 ** 20, [None, None, None],
             S.NIL_UUID, S.V1_UUID, [S.V1_UUID], {"id": S.NIL_UUID}, UUID(int=7, version=4), 1.0, 0.0, -0.0, False,
             [True, 1.0], {"x": 0.0, "y": -0.0}, 1e308, -1e300, [1.7e308], {"big": 1e308}, date(2021, 1, 1), datetime(2021, 1, 1, 0, 0, 0), [b""], {"k": [1.0, True]})


def child_pairs(s_sch, v):
    """(sub-schema, sub-value) pairs a substitution of v into s_sch descends into."""
    from niltype import Nil
    kind = type(s_sch).__name__
    p = s_sch.props
    out = []
    try:
        if "TypeAlias" in kind:
            out.append((p.type, v))
        elif kind == "DictSchema" and type(v) is dict and p.get("keys") is not Nil:
            ks = p.get("keys")
            for k, x in v.items():
                if k in ks and k is not ...:
                    out.append((ks[k][0], x))
        elif kind == "ListSchema" and type(v) is list:
            if p.get("type") is not Nil:
                out.extend((p.get("type"), x) for x in v)
            elif p.get("elements") is not Nil:
                els = p.get("elements")
                n = len(els)
                if not any(e is ... for e in els):
                    if n == len(v):
                        out.extend(zip(els, v))
                elif n >= 2 and els[-1] is ... and els[0] is not ...:
                    conc = els[:-1]                      # head window [a, b, ...]
                    if len(v) >= len(conc):
                        out.extend(zip(conc, v))
                elif n >= 1 and els[0] is ... and els[-1] is not ...:
                    conc = els[1:]                       # tail window [..., a, b]
                    if len(v) >= len(conc):
                        out.extend(zip(conc, v[len(v) - len(conc):]))
        elif kind == "AnySchema" and p.get("types") is not Nil:
            out.extend((t, v) for t in p.get("types"))
    except Exception:
        pass
    return out


def value_features(v):
    f = []
    if isinstance(v, float):
        if v != v:
            f.append("v:is_nan")
        elif v in (math.inf, -math.inf):
            f.append("v:is_inf")
        elif abs(v) * 10.0 == math.inf or abs(v) >= 1e293:
            f.append("v:huge")
    if type(v) in (dict, list) and "fnan" in canon(v):
        f.append("v:contains_nan")
    if type(v) is dict:
        f.append("v:dict")
        if not v:
            f.append("v:empty_dict")
    if type(v) is list:
        f.append("v:list")
        if any(type(x) is dict for x in v):
            f.append("v:list_of_dicts")

        def holds_dict(x, d=0):
            if type(x) is dict:
                return True
            return type(x) is list and d < 8 and any(holds_dict(y, d + 1) for y in x)
        if any(type(x) is list and holds_dict(x) for x in v):
            f.append("v:list_of_lists_holding_dicts")      # a partial dict one or more list levels below a window element
    return f


class Prop(BaseProp):
    id = "C04"

    def setup(self):
        from d42 import fake, validate
        self.env = S.Env()
        self.fake = fake
        self.validate = validate
        self.known = self.args.get("known", [])

    # ------------------------------------------------------------ cases
    def gen_case(self, labels, cfg):
        r = _real_random.Random(derive(*labels, "case"))
        k = S.Knobs(r)
        if r.random() < 0.5:
            k.p_ops = 0.0
        spec, w = S.gen(r, k)
        x = r.random()
        if x < 0.4:
            vk, v = "witness", w
        elif x < 0.75:
            vk, v = "partial", S.partial_of(w, r, p_drop=r.choice((0.2, 0.5, 0.8)))
        elif x < 0.79:
            vk, v = "subtyped", subtyped(w, r)
        elif x < 0.82:
            vk, v = "lookalike", lookalike(w, r)
        elif x < 0.9:
            vk, v = "perturbed", perturb(w, r)
        else:
            vk, v = "unrelated", r.choice(UNRELATED)
        return {"spec": spec, "v": enc(v), "vkind": vk, "seed": derive(*labels, "sched"),
                "m": cfg["m_seeded"], "flip_n": cfg["flip_n"], "clock_seed": derive(*labels, "clock"),
                "pert_seed": derive(*labels, "pert")}

    # ------------------------------------------------------------ helpers on real schemas
    def _node_reprs(self, sch):
        out = set()
        for n, _ in iter_nodes(sch):
            try:
                out.add(repr(n))
            except Exception:
                pass
        return out

    def check_unspecified(self, s_sch, r_sch, v, path=()):
        """(e): keys of S absent from v keep schema and optionality in R.  -> None | detail"""
        from niltype import Nil
        ks = type(s_sch).__name__
        kr = type(r_sch).__name__
        if "TypeAlias" in ks and "TypeAlias" in kr:
            return self.check_unspecified(s_sch.props.type, r_sch.props.type, v, path)
        if ks == "DictSchema" and kr == "DictSchema" and type(v) is dict:
            sk = s_sch.props.get("keys")
            rk = r_sch.props.get("keys")
            if sk is Nil or rk is Nil:
                return None
            if len(sk) == 1 and ... in sk:
                return None
            for key, (sub, opt) in sk.items():
                if key is ...:
                    if ... not in rk:
                        return "relaxed marker lost at %r" % (path,)
                    continue
                if key in v:
                    if key in rk:
                        d = self.check_unspecified(sub, rk[key][0], v[key], path + (key,))
                        if d:
                            return d
                    continue
                if key not in rk:
                    return "unspecified key %r dropped at %r" % (key, path)
                rsub, ropt = rk[key]
                if ropt != opt:
                    return "unspecified key %r optional %s -> %s at %r" % (key, opt, ropt, path)
                if repr(rsub) != repr(sub):
                    return "unspecified key %r schema changed at %r: %s -> %s" % (key, path, repr(sub)[:80], repr(rsub)[:80])
            return None
        if ks == "ListSchema" and kr == "ListSchema" and type(v) is list:
            st = s_sch.props.get("type")
            re_ = r_sch.props.get("elements")
            if st is not Nil and re_ is not Nil and len(re_) == len(v):
                for i, (e, x) in enumerate(zip(re_, v)):
                    if e is ...:
                        continue
                    d = self.check_unspecified(st, e, x, path + (i,))
                    if d:
                        return d
        return None

    # ------------------------------------------------------------ oracles on one (S, v) pair
    class Pair:
        """S % v and the C04 oracles on it.  findings: dict(outcome, phase, detail, schedule)."""

        def __init__(self, prop, s_sch, v, pert_seed, clock_seed=None, count=True):
            self.P = prop
            self.s = s_sch
            self.v = v
            self.findings = []
            self.status = "ok"
            self.r = None
            self.pr = _real_random.Random(pert_seed)
            self.clock_seed = clock_seed
            self.n = 0
            self.count = count
            self.s_reprs = None
            self.base = Schedule("lo", seed=0)
            self.outputs = []
            try:
                self.r = s_sch % v
            except prop.env.SubstitutionError:
                self.status = "refused"
            except Exception as e:
                self.status = "raised:" + type(e).__name__     # C12 territory, not claimed here

        def add(self, outcome, phase, detail, schedule):
            self.findings.append({"outcome": outcome, "phase": phase, "detail": detail,
                                  "schedule": schedule.to_json()})

        def static(self):
            P, s_sch, r_sch, v = self.P, self.s, self.r, self.v
            P.world.begin(self.base, 0)
            snapshot = canon(v)
            try:
                conforms = not P.validate(s_sch, v).has_errors()
            except Exception:
                conforms = None
            self.conforms = conforms
            if conforms:
                try:
                    errs = P.validate(r_sch, v).get_errors()
                    if errs:
                        self.add("a:result_rejects_conforming_value", "accept",
                                 "v=%s errors=%s" % (canon(v)[:200], [type(e).__name__ for e in errs][:3]), self.base)
                except Exception as e:
                    self.add("a:validate_raises:" + type(e).__name__, "accept",
                             "%s: %s v=%s" % (type(e).__name__, str(e)[:100], canon(v)[:200]), self.base)
            try:
                d = P.check_unspecified(s_sch, r_sch, v)
            except Exception:
                d = None
                P.probes["check_unspecified_error"] += 1
            if d:
                self.add("e:unspecified_key_changed", "structure", d, self.base)
            if canon(v) != snapshot:
                self.add("x:argument_mutated", "structure", "v mutated by substitute", self.base)

        def dyn(self, schedule):
            P, s_sch, r_sch, v = self.P, self.s, self.r, self.v
            if self.clock_seed is not None:
                rr = _real_random.Random(derive(self.clock_seed, self.n % 5))
                schedule.clock = gen_clock(rr).to_json()
            w = P.world
            w.begin(schedule, derive(self.pr_seed(), schedule.seed))
            self.n += 1
            try:
                g = P.fake(r_sch)
            except DrawCapExceeded:
                P.probes["skip:draw_cap"] += 1
                return w.draws
            except RecursionError:
                return w.draws
            except Exception as e:
                c = S.culprit_from_traceback(sys.exc_info()[2])
                if self.s_reprs is None:
                    self.s_reprs = P._node_reprs(s_sch)
                inherited = False
                try:
                    inherited = c is not None and repr(c) in self.s_reprs
                except Exception:
                    pass
                if inherited:
                    if self.count:
                        P.probes["fake_failure_inherited_from_S"] += 1
                else:
                    self.add("b:fake_raises:" + type(e).__name__, "fake",
                             "%s: %s" % (type(e).__name__, str(e)[:160]), schedule)
                return w.draws
            finally:
                P.note_clock()
            self.outputs.append((schedule, g, list(w.log)))
            # (f) usable: the result accepts what it generates itself
            try:
                own = P.validate(r_sch, g).get_errors()
            except Exception as e:
                own = [e]
            if own:
                c = S.localise_invalid(r_sch, g, P.validate)
                if self.s_reprs is None:
                    self.s_reprs = P._node_reprs(s_sch)
                try:
                    inherited = repr(c) in self.s_reprs
                except Exception:
                    inherited = False
                if inherited:
                    if self.count:
                        P.probes["own_output_rejected_inherited_from_S"] += 1
                else:
                    self.add("f:result_rejects_its_own_generated_value", "fake",
                             "generated=%s errors=%s" % (canon(g)[:160], [type(e).__name__ for e in own][:3]), schedule)
                    return w.draws
            bad = carries(g, v)
            if bad is not None:
                self.add("c:generated_value_does_not_carry", "fake",
                         "path=%r generated=%s v=%s" % (bad, canon(g)[:160], canon(v)[:160]), schedule)
                return w.draws
            ps = list(positions(v))
            pr = self.pr
            for _ in range(min(3, len(ps))):
                p = pr.choice(ps)
                try:
                    get_at(g, p)
                except Exception:
                    continue
                if p and type(get_at(v, p[:-1])) is dict and pr.random() < 0.3:
                    g2 = del_at(g, p)
                    what = "deleted key"
                else:
                    g2 = set_at(g, p, far_from(get_at(v, p), pr))
                    what = "replaced"
                if carries(g2, v) is None:
                    continue
                try:
                    ok = not P.validate(r_sch, g2).has_errors()
                except Exception:
                    ok = False
                if self.count:
                    P.probes["perturbations_checked"] += 1
                if ok:
                    self.add("d:result_accepts_value_not_carrying", "accept",
                             "%s at %r: accepted %s although v=%s" % (what, p, canon(g2)[:160], canon(v)[:160]), schedule)
                    break
            return w.draws

        _seed = 0

        def pr_seed(self):
            return self._seed

    def _has_outcome(self, cs, cv, f, case):
        pair = self.Pair(self, cs, cv, case["pert_seed"], None, count=False)
        if pair.status != "ok":
            return False
        pair._seed = case["seed"]
        pair.static()
        if f["phase"] == "fake" or f["outcome"].startswith("d:") or f["outcome"].startswith("f:"):
            for pol in ("lo", "hi"):
                pair.dyn(Schedule(pol, seed=0))
            pair.dyn(Schedule.from_json(f["schedule"]))
        return any(x["outcome"] == f["outcome"] for x in pair.findings)

    def _localise(self, s_sch, v, f, case, depth=0):
        if depth < 8:
            for cs, cv in child_pairs(s_sch, v):
                try:
                    if self._has_outcome(cs, cv, f, case):
                        return self._localise(cs, cv, f, case, depth + 1)
                except Exception:
                    continue
        return s_sch, v

    def _mk_violation(self, case, s_sch, v, f):
        cs, cv = self._localise(s_sch, v, f, case)
        kind, feats = S.feat(cs)
        feats = sorted(set(feats) | set(value_features(cv)))
        sig = {"property": "C04", "phase": f["phase"], "outcome": f["outcome"], "kind": kind}
        vv = self.make_violation("C04", sig, case, f["schedule"], f["detail"],
                                 {"features": feats, "culprit": repr_short(cs)[:200], "culprit_value": canon(cv)[:120],
                                  "event_digest": fast_digest([f["outcome"], f["detail"]])})
        vv["kf"] = classify(vv, self.known)
        return vv

    # ------------------------------------------------------------ a whole case
    def run_case(self, case):
        return self._run(case)

    def _run(self, case, only_schedule=None):
        probes = self.probes
        try:
            s_sch = S.build(case["spec"], self.env)
        except S.BuildError:
            probes["discard:build"] += 1
            return {"executions": 0, "violations": [], "keys": set(), "digest": "discard", "discarded": True}
        v = dec(case["v"])
        has_clock = S.has_unfixed_clock(case["spec"])
        pair = self.Pair(self, s_sch, v, case["pert_seed"], case["clock_seed"] if has_clock else None)
        pair._seed = case["seed"]
        if pair.status != "ok":
            probes["substitute_%s:%s" % (pair.status.split(":")[0], case["vkind"])] += 1
            if pair.status != "refused":
                probes["substitute_" + pair.status] += 1
            return {"executions": 1, "violations": [], "keys": set(), "digest": pair.status}
        probes["substitute_ok:" + case["vkind"]] += 1
        pair.static()
        if pair.conforms:
            probes["value_conforms"] += 1
        if only_schedule is not None:
            pair.dyn(only_schedule)
        else:
            self.schedule_plan(pair.dyn, case["seed"], case["m"], case["flip_n"])
        shape = S.shape(case["spec"]) + "%" + case["vkind"]
        keys = set()
        digests = []
        sample = {}
        hs_sensitive = S.hash_seed_sensitive(case["spec"])
        for schedule, g, log in pair.outputs:
            sites = tuple(sorted(set((e[5], e[3]) for e in log)))
            keys.add(derive(shape, sites) & 0xFFFFFFFFFFFF)
            digests.append(fast_digest([log, None if hs_sensitive else canon(g)]))
            if not sample:
                sample.update({"S": repr_short(s_sch), "v": canon(v)[:200], "vkind": case["vkind"],
                               "R": repr_short(pair.r), "generated": canon(g)[:200], "schedule": schedule.to_json()})
        seen = set()
        violations = []
        for f in pair.findings:
            if f["outcome"] in seen:
                continue
            seen.add(f["outcome"])
            violations.append(self._mk_violation(case, s_sch, v, f))
        digests.append(sorted(seen))
        self._case_probes(s_sch, pair.r, v, case)
        return {"executions": pair.n + 1, "violations": violations, "keys": keys,
                "digest": fast_digest(digests), "sample": sample}

    def _case_probes(self, s_sch, r_sch, v, case):
        from niltype import Nil
        p = self.probes
        ks = type(s_sch).__name__
        if ks == "ListSchema":
            if s_sch.props.get("type") is not Nil:
                p["typed_list->elements"] += 1
            f = set(S.feat(s_sch)[1])
            for w in ("ellipsis_head", "ellipsis_tail", "ellipsis_body"):
                if w in f:
                    p["window:" + w] += 1
        if ks == "AnySchema":
            st = s_sch.props.get("types")
            rt = r_sch.props.get("types")
            if st is not Nil and rt is not Nil:
                if len(rt) == 0:
                    p["any_all_alternatives_dropped"] += 1
                elif len(rt) < len(st):
                    p["any_kept_k_of_n_alternatives"] += 1
            if st is Nil:
                p["untyped_any via from_native"] += 1
        if ks == "DictSchema" and s_sch.props.get("keys") is Nil:
            p["untyped_dict via from_native"] += 1
        if ks == "ListSchema" and s_sch.props.get("type") is Nil and s_sch.props.get("elements") is Nil:
            p["untyped_list via from_native"] += 1
        if case["vkind"] == "partial":
            depth = max((len(x) for x in positions(v)), default=0)
            if depth >= 2:
                p["partial_dict_depth>=2"] += 1
        c = canon(v)
        if "fnan" in c or "finf" in c or "f-inf" in c:
            p["nan_or_inf_value"] += 1

    # ------------------------------------------------------------ shrink / replay
    def check_single(self, case, schedule_json, sig_id, kf="__any__"):
        sched = Schedule.from_json(schedule_json)
        res = self._run(case, only_schedule=sched)
        for v in res["violations"]:
            if sig_id is not None and v["sig_id"] != sig_id:
                continue
            if kf != "__any__" and v["kf"] != kf:
                continue
            return v
        return None

    def minimise(self, v, budget_s=15, max_exec=2000):
        self._kf_target = v.get("kf")
        return super().minimise(v, budget_s, max_exec)

    def check_for_minimise(self, case, sched, sig_id):
        return self.check_single(case, sched, sig_id, kf=self._kf_target)

    def shrink_candidates(self, v):
        case, sched = v["case"], v["schedule"]
        for pol in _simpler_policies(sched):
            yield case, dict(sched, policy=pol, overrides={}, sites={})
        if sched.get("overrides"):
            for kk in list(sched["overrides"]):
                o = dict(sched["overrides"])
                del o[kk]
                yield case, dict(sched, overrides=o)
        val = dec(case["v"])
        for sp in S.shrink_spec(case["spec"]):
            yield dict(case, spec=copy.deepcopy(sp)), sched
            # hoisting a child usually needs the matching part of the value
            if type(val) is dict:
                for x in val.values():
                    yield dict(case, spec=copy.deepcopy(sp), v=enc(x)), sched
            elif type(val) is list and val:
                yield dict(case, spec=copy.deepcopy(sp), v=enc(val[0])), sched
        for sv in S.shrink_value(val):
            yield dict(case, v=enc(sv)), sched
