"""Parent side of C17: the same cases in interpreters with different PYTHONHASHSEED values,
compared per case; mismatches are re-examined (known cause masked out) and minimised through
persistent server interpreters, one per hash seed."""
import json
import os
import subprocess
import sys
import time

from . import runner as R
from .core import derive
from .known import classify
from .p_c17 import gen_case, mask_negated, seed_features, shrink_case, spec_features
from .tiers import META, TIERS


class Server:
    def __init__(self, hashseed):
        cmd, env = R.interpreter_cmd_env(hashseed)
        env["PYTHONDONTWRITEBYTECODE"] = "1"
        env["D42_SRC"] = R.d42_src()
        env.pop("PYTHONPATH", None)
        self.h = hashseed
        self.calls = 0
        self.p = subprocess.Popen(cmd + [R.WORKER, json.dumps({"property": "C17", "mode": "serve"})],
                                  stdin=subprocess.PIPE, stdout=subprocess.PIPE, stderr=subprocess.DEVNULL,
                                  env=env, cwd=R.VERIF, text=True)

    def values(self, case):
        self.calls += 1
        self.p.stdin.write(json.dumps(case) + "\n")
        self.p.stdin.flush()
        line = self.p.stdout.readline()
        if not line:
            raise RuntimeError("C17 server (hashseed %s) died" % self.h)
        return json.loads(line)["values"]

    def close(self):
        try:
            self.p.stdin.write("quit\n")
            self.p.stdin.flush()
            self.p.wait(timeout=5)
        except Exception:
            self.p.kill()


def differs(servers, case):
    """-> None or (h_a, h_b, idxs) for the first pair of interpreters that disagree."""
    base = None
    for s in servers:
        vals = s.values(case)
        if base is None:
            base = (s.h, vals)
        elif vals != base[1]:
            idx = [i for i, (x, y) in enumerate(zip(base[1], vals)) if x != y]
            return base[0], s.h, idx, base[1], vals
    return None


def minimise(servers_pair, case, budget_s=20, max_exec=1500):
    t_end = time.time() + budget_s
    n = 0
    improved = True
    while improved and time.time() < t_end and n < max_exec:
        improved = False
        for cand in shrink_case(case):
            n += 1
            if time.time() >= t_end or n >= max_exec:
                break
            if differs(servers_pair, cand):
                case = cand
                improved = True
                break
    return case, n


FLAGS = ["", "", "O", "malloc_debug", "preload", "", "dev", "O+preload", "", "malloc_debug+preload", "", "O", "", "", "preload", ""]


def interpreter_configs(seed, n):
    hs = R.hash_seeds(seed, n)
    out = []
    for i, h in enumerate(hs):
        f = FLAGS[i % len(FLAGS)]
        out.append("%d:%s" % (h, f) if f else h)
    return out


def run_check_c17(tier, seed, workers=None, cases=None):
    t0 = time.time()
    pid = "C17"
    cfg = dict(TIERS[pid][tier])
    if cases:
        cfg["cases"] = cases
    n = cfg["cases"]
    H = interpreter_configs(seed, cfg["configs"])
    W = workers or 16
    per = max(1, W // len(H))
    wall = cfg.get("wall", 900)
    print("VERIF_SEED=%d property=C17 tier=%s cases=%d interpreter-configs(PYTHONHASHSEED)=%s workers/config=%d d42=%s digest=%s" % (
        seed, tier, n, H, per, R.d42_src(), R.src_digest()), flush=True)
    known = R.load_known(pid)
    jobs = []
    for h in H:
        for j in range(per):
            jobs.append(({"property": pid, "mode": "sweep", "seed": seed, "first": j, "last": n, "step": per,
                          "tier_cfg": cfg, "shrink_s": cfg.get("shrink_s", 10), "known": known}, h))
    results = R.run_workers(jobs, wall)
    harness_errors = [l for lines in results for l in lines if l.get("type") == "harness_error"]
    digests = {h: {} for h in H}
    tot = {"cases": 0, "executions": 0, "discarded": 0}
    keys = set()
    probes = {}
    samples = []
    inproc = []
    for (args, h), lines in zip(jobs, results):
        for l in lines:
            if l.get("type") == "stats":
                digests[h].update({int(k): v for k, v in l["case_digests"].items()})
                for k in tot:
                    tot[k] += l[k]
                keys.update(l["keys"])
                for k, v in l["probes"].items():
                    probes[k] = probes.get(k, 0) + v
                if len(samples) < 3:
                    samples.extend(l["samples"][:1])
            elif l.get("type") == "violation":
                v = l["v"]
                v["pythonhashseed"] = h
                inproc.append(v)
    # ---- cross-interpreter comparison
    mism = []
    for idx in sorted(digests[H[0]]):
        ds = [digests[h].get(idx) for h in H]
        if len(set(ds)) > 1:
            mism.append(idx)
    servers = [Server(h) for h in H]
    out_lines = []
    kf_seen = {}
    new_viol = []
    n_masked_checks = 0
    try:
        # directed known-finding / regression cases
        for ent in known:
            d = ent.get("directed")
            if d and d.get("same_interpreter_twice"):
                one = Server(0)
                try:
                    diff = one.values(d["case"]) != one.values(d["case"])
                finally:
                    one.close()
                if ent["status"] == "known" and diff:
                    kf_seen[ent["id"]] = kf_seen.get(ent["id"], 0) + 1
                elif ent["status"] == "known":
                    out_lines.append("NOTE: known finding %s no longer reproduces on this tree" % ent["id"])
                continue
            if not d or "pythonhashseeds" not in d:
                continue
            pair = [Server(h) for h in d["pythonhashseeds"]]
            try:
                diff = differs(pair, d["case"])
            finally:
                for s in pair:
                    s.close()
            if ent["status"] == "known":
                if diff:
                    kf_seen[ent["id"]] = kf_seen.get(ent["id"], 0) + 1
                else:
                    out_lines.append("NOTE: known finding %s no longer reproduces on this tree" % ent["id"])
            elif ent["status"] == "fixed" and diff:
                new_viol.append({"case": d["case"], "pythonhashseeds": d["pythonhashseeds"], "regression_of": ent["id"],
                                 "signature": {"property": "C17", "outcome": "differs:cross_interpreter"},
                                 "sig_id": "regression-" + ent["id"], "detail": "regression of %s" % ent["id"]})
        unknown_cases = []
        for idx in mism:
            case = gen_case((seed, pid, idx), cfg)
            if seed_features(case):
                kf_seen["KF-C17-2"] = kf_seen.get("KF-C17-2", 0) + 1
                continue
            feats = set()
            for sp in case["specs"]:
                feats |= spec_features(sp)
            masked = mask_negated(case)
            n_masked_checks += 1
            diff = differs(servers, masked)
            if diff is None and "regex_negated_class" in feats:
                kf_seen["KF-C17-1"] = kf_seen.get("KF-C17-1", 0) + 1
                continue
            if diff is None:
                # mismatch without any negated class that vanished on re-run: flaky = nondeterminism
                diff0 = differs(servers, case)
                if diff0 is None:
                    harness_errors.append({"error": "C17 case %d differed in the sweep but not on re-run" % idx})
                    continue
                unknown_cases.append((idx, case, diff0))
            else:
                unknown_cases.append((idx, masked, diff))
        # minimise & report the unknown ones (grouped: first few only)
        for idx, case, diff in unknown_cases[:5]:
            ha, hb = diff[0], diff[1]
            pair = [s for s in servers if s.h in (ha, hb)]
            small, nexec = minimise(pair, case)
            d2 = differs(pair, small)
            v = {"property": pid, "signature": {"property": "C17", "outcome": "differs:cross_interpreter"},
                 "sig_id": "xi-%d" % idx, "case": small, "case_index": idx, "pythonhashseeds": [ha, hb],
                 "detail": "values differ between PYTHONHASHSEED=%s and %s: %s vs %s" % (
                     ha, hb, d2[3][d2[2][0]][:80] if d2 else "?", d2[4][d2[2][0]][:80] if d2 else "?"),
                 "minimise_execs": nexec, "total_count": len(unknown_cases)}
            new_viol.append(v)
            break   # one replay per run is enough for this class
        # ---- warm sweep worker vs fresh interpreter: a sample of cases is re-run alone in new
        # interpreters (same hash seed as configuration 0); whatever the sweep worker executed before a
        # case must not matter
        import random as _r
        rr = _r.Random(derive(seed, "fresh-sample"))
        cand = [i for i in sorted(digests[H[0]]) if i >= per]          # cases that had predecessors
        n_sample = min(cfg.get("fresh_sample", 96), len(cand))
        # stratified: from a 20x larger uniform pool, first make sure every spec feature seen in the pool
        # (rarest first: a particular unsupported regex construct, a rare refinement ...) is re-run a few
        # times, then fill up uniformly -- state left behind by rare code paths is what this oracle is for
        pool = rr.sample(cand, min(20 * n_sample, len(cand)))
        by_feat = {}
        for i in pool:
            fs = set()
            for sp in gen_case((seed, pid, i), cfg)["specs"]:
                fs |= spec_features(sp)
            for f in fs:
                by_feat.setdefault(f, []).append(i)
        sample, chosen = [], set()
        for f in sorted(by_feat, key=lambda f: (len(by_feat[f]), f)):
            for i in by_feat[f][:3]:
                if len(sample) < (3 * n_sample) // 4 and i not in chosen:
                    chosen.add(i)
                    sample.append(i)
        for i in pool:
            if len(sample) >= n_sample:
                break
            if i not in chosen:
                chosen.add(i)
                sample.append(i)
        probes["fresh_sample_features_covered"] = sum(1 for f in by_feat if any(i in chosen for i in by_feat[f]))
        n_fresh = 0
        for k in range(0, len(sample), 16):
            batch = sample[k:k + 16]
            outs = R.run_sequences(pid, seed, cfg, [[i] for i in batch], wall, H[0])
            for i, o in zip(batch, outs):
                if o is None:
                    continue
                n_fresh += 1
                if o.get(i) != digests[H[0]][i]:
                    case = gen_case((seed, pid, i), cfg)
                    if seed_features(case):
                        kf_seen["KF-C17-2"] = kf_seen.get("KF-C17-2", 0) + 1
                        continue
                    v = R.process_history_violation(pid, seed, cfg, i, per, wall, pred_b=[], hashseed=H[0])
                    if v is not None:
                        v["signature"] = {"property": pid, "outcome": "differs:warm_worker_vs_fresh_interpreter"}
                        new_viol.append(v)
                        break
            if any(v.get("kind") == "process_history" for v in new_viol):
                break
        probes["fresh_interpreter_rechecks"] = n_fresh
    finally:
        server_calls = sum(s.calls for s in servers)
        for s in servers:
            s.close()
    by_sig = {}
    warm_done = False
    for v in inproc:
        if v.get("signature", {}).get("outcome") == "differs:warm_process" and not v.get("kf"):
            # a re-run late in the worker's life differed: reproduce it in fresh interpreters as a
            # process-history difference (predecessors = that worker's earlier cases), shrink, replay-able
            if warm_done:
                continue
            idx = v["case"].get("index")
            pv = None
            if idx is not None:
                pv = R.process_history_violation(pid, seed, cfg, idx, per, wall, pred_b=[], hashseed=v.get("pythonhashseed", H[0]))
                if pv is None:
                    # the state may have been left behind by cases that ran *after* it: the whole shard
                    shard = [i for i in range(idx % per, n, per) if i != idx]
                    pv = R.process_history_violation(pid, seed, cfg, idx, per, wall, pred_b=[], pred_a=shard,
                                                     hashseed=v.get("pythonhashseed", H[0]), max_trials=12)
            if pv is not None:
                pv["signature"] = {"property": pid, "outcome": "differs:warm_process"}
                new_viol.append(pv)
                warm_done = True
                continue
        if v.get("kf"):
            kf_seen[v["kf"]] = kf_seen.get(v["kf"], 0) + v.get("count_in_worker", 1)
            continue
        by_sig.setdefault(v["sig_id"], []).append(v)
    for sig_id, lst in sorted(by_sig.items()):
        rep = min(lst, key=lambda v: v.get("minimised_case_size", 10 ** 9))
        rep["total_count"] = sum(v.get("count_in_worker", 1) for v in lst)
        new_viol.append(rep)
    for ent in known:
        if ent["status"] == "known" and ent["id"] in kf_seen:
            out_lines.append("KNOWN-FINDING: property=%s %s [%s; seen %d]" % (pid, ent["what"], ent["id"], kf_seen[ent["id"]]))
    for v in new_viol:
        d = os.path.join(R.out_dir(), "replays", pid)
        os.makedirs(d, exist_ok=True)
        path = os.path.join(d, "%s.json" % v["sig_id"])
        kind = "cross_interpreter" if "pythonhashseeds" in v else ("process_history" if v.get("kind") == "process_history" else "in_process")
        with open(path, "w") as f:
            json.dump({"property": pid, "kind": kind, "verif_seed": seed, "pythonhashseed": v.get("pythonhashseed", 0),
                       "pythonhashseeds": v.get("pythonhashseeds"), "d42_digest": R.src_digest(), "violation": v},
                      f, indent=1, default=str)
        out_lines.append("VIOLATION property=%s replay=%s" % (pid, path))
        out_lines.append("  signature=%s detail=%s" % (json.dumps(v["signature"], sort_keys=True), str(v.get("detail"))[:300]))
    wall_s = time.time() - t0
    meta = META[pid]
    compared = len(digests[H[0]])
    ev = {
        "property_id": pid, "tier": tier, "seed": seed, "level": "exploration",
        "coverage": {
            "evaluations": tot["executions"] + server_calls,
            "distinct_nontrivial": len(keys),
            "rule": meta["rule"],
            "samples": samples,
            "cases": compared, "interpreter_configs": len(H), "pythonhashseeds": H,
            "cases_compared_across_interpreters": compared,
            "cases_differing_across_interpreters": len(mism),
            "differing_cases_rechecked_with_known_cause_masked": n_masked_checks,
            "runs_per_hour": int((tot["executions"] + server_calls) / max(wall_s, 1e-9) * 3600),
            "seeds_per_hour": int(compared / max(wall_s, 1e-9) * 3600),
            "simulated_time_covered_s": 0.0,
            "fault_kinds_fired": {
                "config:distinct_hash_seeds": len(H),
                "history:noise_ops_interleaved": sum(v for k, v in probes.items() if k.startswith("noise:")),
                "config:warm_process_rechecks": probes.get("warm_process_rechecks", 0),
                "config:fresh_interpreter_rechecks": probes.get("fresh_interpreter_rechecks", 0),
                "history:rebuilt_schema_runs": tot["cases"],
            },
            "probes": probes,
            "run_digest": R.fast_digest_cases(digests[H[0]]),
            "real_vs_stub": meta["real_vs_stub"],
            "known_findings_seen": kf_seen,
            "d42_digest": R.src_digest(),
            "harness_errors": [e.get("error", "")[-400:] for e in harness_errors][:5],
        },
        "assumptions": meta["assumptions"],
        "wall_s": round(wall_s, 2),
        "violations": len(new_viol),
    }
    from .reach import report as reach_report
    ev["coverage"]["reach"] = reach_report(pid, ev["coverage"])
    os.makedirs(os.path.join(R.out_dir(), "evidence"), exist_ok=True)
    with open(os.path.join(R.out_dir(), "evidence", "%s.json" % pid), "w") as f:
        json.dump(ev, f, indent=1, default=str, sort_keys=True)
    for l in out_lines:
        print(l)
    if ev["coverage"]["reach"]["not_reached"]:
        print("REACH-GAP: %d of %d expected probes not hit: %s" % (len(ev["coverage"]["reach"]["not_reached"]), ev["coverage"]["reach"]["expected"],
                                                                  ", ".join(ev["coverage"]["reach"]["not_reached"][:8])))
    print("cases=%d configs=%d executions=%d distinct=%d cross-interpreter-mismatches=%d (rechecked masked: %d) wall=%.1fs violations=%d known=%s" % (
        compared, len(H), tot["executions"] + server_calls, len(keys), len(mism), n_masked_checks, wall_s, len(new_viol), sorted(kf_seen)), flush=True)
    if harness_errors:
        for e in harness_errors[:3]:
            print("HARNESS-ERROR: %s" % e.get("error", "")[-1500:], file=sys.stderr)
        return 2 if not new_viol else 1
    return 1 if new_viol else 0


def run_replay_c17(path, rep):
    v = rep["violation"]
    pair = [Server(h) for h in rep["pythonhashseeds"]]
    try:
        d = differs(pair, v["case"])
    finally:
        for s in pair:
            s.close()
    if d:
        print("VIOLATION property=C17 replay=%s" % path)
        print("  PYTHONHASHSEED=%s -> %s ; PYTHONHASHSEED=%s -> %s" % (d[0], d[3][d[2][0]][:100], d[1], d[4][d[2][0]][:100]))
        return 1
    print("NOT-REPRODUCED property=C17 replay=%s" % path)
    return 0
