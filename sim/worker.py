"""Worker: runs a shard of cases of one property inside one interpreter.

Exec'd (never forked) by runner.py with an explicit PYTHONHASHSEED.  Streams JSON lines on
stdout; the last line is {"type":"done",...}.  Exit code 0 always unless the harness itself
broke (then 2 and a {"type":"harness_error"} line).
"""
import faulthandler
import json
import os
import sys
import time
import traceback

HERE = os.path.dirname(os.path.abspath(__file__))
sys.path.insert(0, os.path.dirname(HERE))
D42_SRC = os.environ.get("D42_SRC", "/repo")
sys.path.insert(0, D42_SRC)
sys.dont_write_bytecode = True


def emit(obj):
    sys.stdout.write(json.dumps(obj, default=str) + "\n")
    sys.stdout.flush()


def load_prop(pid):
    import importlib
    mod = importlib.import_module("sim.p_%s" % pid.lower())
    return mod.Prop()


def main():
    args = json.loads(sys.argv[1])
    faulthandler.enable()
    try:
        import resource
        lim = int(os.environ.get("VERIF_WORKER_MEM", 6 * 2 ** 30))
        resource.setrlimit(resource.RLIMIT_AS, (lim, lim))     # a runaway SUT must not take the sandbox down
    except Exception:
        pass
    if args.get("wall_limit"):
        faulthandler.dump_traceback_later(args["wall_limit"], exit=True)
    for name in filter(None, os.environ.get("VERIF_PRELOAD", "").split(",")):
        __import__(name)           # another import order is one more interpreter configuration
    import d42
    real = os.path.realpath(os.path.dirname(os.path.dirname(d42.__file__)))
    if real != os.path.realpath(D42_SRC):
        emit({"type": "harness_error", "error": "d42 imported from %s, expected %s" % (real, D42_SRC)})
        return 2
    from sim.core import derive, digest
    pid = args["property"]
    prop = load_prop(pid)
    prop.init(args)
    mode = args["mode"]
    if mode == "replay":
        out = prop.replay(args["replay"])
        emit({"type": "replay", **out})
        emit({"type": "done"})
        return 0
    if mode == "serve":
        from sim.p_c17 import serve
        serve(prop)
        return 0
    if mode == "sequence":
        # run the given case indices in order in this (fresh) interpreter; report the digest of each
        out = {}
        for idx in args["indices"]:
            case = prop.gen_case((args["seed"], pid, idx), args["tier_cfg"])
            res = prop.run_case(case)
            out[idx] = res.get(args.get("digest_key", "digest")) or res["digest"]
        emit({"type": "sequence", "digests": out})
        emit({"type": "done"})
        return 0
    if mode == "directed":
        for ent in args["entries"]:
            try:
                out = prop.run_directed(ent)
            except Exception:
                emit({"type": "harness_error", "error": traceback.format_exc()})
                return 2
            emit({"type": "directed", "id": ent["id"], **out})
        emit({"type": "done"})
        return 0

    seed = args["seed"]
    lo, hi, step = args["first"], args["last"], args["step"]
    tier_cfg = args["tier_cfg"]
    n_cases = n_exec = n_disc = 0
    keys = set()
    case_digests = {}
    case_digests_hs = {}
    case_tags = {}
    viol_by_sig = {}
    samples = []
    t0 = time.time()
    import signal

    class CaseTimeout(BaseException):
        pass

    def on_alarm(signum, frame):
        raise CaseTimeout()

    watchdog = pid != "C09"          # C09 guards its own regex calls with the same timer
    if watchdog:
        signal.signal(signal.SIGALRM, on_alarm)
    for idx in (args.get("indices") or range(lo, hi, step)):
        labels = (seed, pid, idx)
        try:
            if watchdog:
                signal.setitimer(signal.ITIMER_REAL, args.get("case_limit", 120))
            case = prop.gen_case(labels, tier_cfg)
            if case is None:
                n_disc += 1
                continue
            res = prop.run_case(case)
        except CaseTimeout:
            emit({"type": "harness_error", "case_index": idx,
                  "error": "case %d exceeded the per-case time limit (a hang, e.g. catastrophic regex backtracking inside d42):\n%s" % (idx, traceback.format_exc()[-1500:])})
            return 2
        except Exception:
            emit({"type": "harness_error", "case_index": idx, "error": traceback.format_exc()})
            return 2
        finally:
            if watchdog:
                signal.setitimer(signal.ITIMER_REAL, 0)
        n_cases += 1
        n_exec += res["executions"]
        if res.get("discarded"):
            n_disc += 1
        keys.update(res["keys"])
        case_digests[idx] = res["digest"]
        if res.get("tags"):
            case_tags[idx] = res["tags"]
        if "digest_hs" in res:
            case_digests_hs[idx] = res["digest_hs"]
        for v in res["violations"]:
            v["case_index"] = idx
            lst = viol_by_sig.setdefault((v["sig_id"], v.get("kf")), [])
            if not lst:
                emit({"type": "violation_raw", "v": v})      # survives a worker that dies while minimising
            if len(lst) < 3:
                lst.append(v)
            else:
                lst[0].setdefault("more", 0)
                lst[0]["more"] += 1
        if len(samples) < 3 and res.get("sample") and not res["violations"]:
            samples.append(res["sample"])
    if hasattr(prop, "warm_recheck"):
        for v in prop.warm_recheck():
            v["case_index"] = -1
            viol_by_sig.setdefault((v["sig_id"], v.get("kf")), []).append(v)
    # minimise the first violation of each signature (bounded)
    out_viol = []
    for sig_id, lst in sorted(viol_by_sig.items(), key=lambda kv: repr(kv[0])):
        v = lst[0]
        try:
            v = prop.minimise(v, budget_s=args.get("shrink_s", 15))
        except Exception:
            v["minimise_error"] = traceback.format_exc()[-800:]
        v["count_in_worker"] = len(lst) + lst[0].get("more", 0)
        out_viol.append(v)
    for v in out_viol:
        emit({"type": "violation", "v": v})
    emit({"type": "stats", "cases": n_cases, "executions": n_exec, "discarded": n_disc,
          "keys": sorted(keys), "case_digests": case_digests, "case_digests_hs": case_digests_hs, "case_tags": case_tags, "samples": samples,
          "probes": dict(prop.probes), "world": prop.world_stats(),
          "hashseed": os.environ.get("PYTHONHASHSEED"), "wall": time.time() - t0})
    emit({"type": "done"})
    return 0


if __name__ == "__main__":
    try:
        rc = main()
    except BaseException:
        emit({"type": "harness_error", "error": traceback.format_exc()})
        rc = 2
    sys.exit(rc)
