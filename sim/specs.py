"""Workload language: JSON specs of schemas, witness-first generation, building through the
public DSL, feature extraction / localisation on real schema objects, and tree-surgery
shrinking.  Specs are data, so replay files are data.
"""
import copy
import string
from datetime import date, datetime, timedelta
from uuid import UUID

from . import regexgram as G
from .core import dec, enc

ALL_TYPES = ("none", "bool", "int", "float", "str", "bytes", "uuid4", "datetime", "date",
             "list", "dict", "any", "alias")
SCALARS = ("none", "bool", "int", "float", "str", "bytes", "uuid4", "datetime", "date")

INT63 = 2 ** 63


class BuildError(Exception):
    pass


class Knobs:
    """Per-case swarm configuration (drawn from the case PRNG)."""

    def __init__(self, r, no_clock=False, allow_ops=True, regex=True):
        self.types = set(t for t in ALL_TYPES if r.random() < 0.75)
        if not (self.types & set(SCALARS)):
            self.types.add(r.choice(SCALARS))
        if no_clock:
            self.types -= {"uuid4", "datetime", "date"}
            if not (self.types & set(SCALARS)):
                self.types.add("int")
        self.no_clock = no_clock
        self.depth = r.choice((0, 1, 2, 2, 3, 4))
        self.fanout = r.choice((1, 2, 3, 4, 4, 8))
        self.p_beyond = r.choice((0.0, 0.1, 0.5))
        self.p_value = r.choice((0.0, 0.15, 0.5))
        self.p_constraint = r.choice((0.2, 0.5, 0.9))
        self.p_unicode = r.choice((0.0, 0.0, 0.3))
        self.p_regex = r.choice((0.0, 0.1, 0.3)) if regex else 0.0
        self.p_ops = r.choice((0.0, 0.0, 0.2, 0.4)) if allow_ops else 0.0
        self.p_edge = r.choice((0.0, 0.05, 0.2))       # empty alphabets, zero lengths, ...
        self.float_grid_safe = True
        self.p_hooked = 0.0
        self.p_placeholder = 0.0
        self.p_regex_unsup = 0.0
        self.p_regex_flags = 0.0
        self.p_regex_narrow = 0.0      # negated class that leaves nothing of plain schema.str's own alphabet (C01 only)


# ------------------------------------------------------------------ generation (witness-first)

def gen(r, k, depth=None):
    """-> (spec, witness)"""
    if depth is None:
        depth = k.depth
    if k.p_ops and depth > 0 and r.random() < k.p_ops:
        out = _gen_op(r, k, depth)
        if out is not None:
            return out
    containers = [t for t in ("list", "dict", "any", "alias") if t in k.types]
    scalars = [t for t in SCALARS if t in k.types]
    if depth > 0 and containers and r.random() < 0.7:
        t = r.choice(containers)
    else:
        t = r.choice(scalars)
    return globals()["_gen_" + t](r, k, depth)


def _gen_none(r, k, depth):
    return {"t": "none"}, None


def _gen_bool(r, k, depth):
    w = r.random() < 0.5
    s = {"t": "bool"}
    if r.random() < k.p_value:
        s["value"] = w
    return s, w


def _pick_int(r, k):
    x = r.random()
    if x < 0.04:
        return r.random() < 0.5          # a bool is an int: schema.int(True) is declarable
    if x < 0.4:
        return r.randint(-20, 20)
    if x < 0.6:
        return r.choice((0, 1, -1, 2 ** 31, -2 ** 31, 2 ** 32, 10 ** 9, -10 ** 9))
    if x < 0.8:
        return r.choice((INT63 - 1, -INT63, INT63 - 2, -INT63 + 1, 2 ** 62))
    if r.random() < k.p_beyond:
        return r.choice((INT63, INT63 + 5, -INT63 - 1, -INT63 - 7, 2 ** 64, 2 ** 70, -2 ** 70, 10 ** 30))
    return r.randint(-10 ** 6, 10 ** 6)


def _gen_int(r, k, depth):
    w = _pick_int(r, k)
    s = {"t": "int"}
    order = []
    if r.random() < k.p_value:
        s["value"] = enc(w)
        order.append("value")
    rest = []
    if r.random() < k.p_constraint:
        s["min"] = enc(w - r.choice((0, 0, 1, 3, 100, 2 ** 40, 2 ** 64)))
        rest.append("min")
    if r.random() < k.p_constraint:
        s["max"] = enc(w + r.choice((0, 0, 1, 3, 100, 2 ** 40, 2 ** 64)))
        rest.append("max")
    r.shuffle(rest)
    s["order"] = order + rest
    return s, w


def _pick_float(r, k):
    x = r.random()
    if x < 0.35:
        return round(r.uniform(-10, 10), r.choice((0, 1, 2, 3, 6)))
    if x < 0.5:
        return r.choice((0.0, -0.0, 1.0, -1.0, 0.5, 0.15, -0.15, 0.95, 1e-5, -1e-5, 3.14, 1.1, 2.675))
    if x < 0.65:
        return r.uniform(-1, 1)
    if x < 0.8:
        return r.uniform(-1e6, 1e6)
    if x < 0.9:
        return r.choice((1e15, -1e15, 2.0 ** 53, 9.2e18, -9.2e18, float(INT63)))
    if r.random() < k.p_beyond:
        return r.choice((1e19, -1e19, 1.5e19, -3e19, 1e20, 1e300, -1e300, 1e308, -1e308, 1.7e308, 5e-324, 2.5e-310))
    return r.uniform(-100, 100)


def _gen_float(r, k, depth):
    if r.random() < k.p_edge * 0.12:
        # the one-point intervals at the ends of the float line: min(+inf) admits exactly inf (and nan,
        # which no bound check refuses), max(-inf) exactly -inf
        w = float("inf") if r.random() < 0.5 else -float("inf")
        s = {"t": "float"}
        near, far = ("min", "max") if w > 0 else ("max", "min")
        s[near] = enc(w)
        rest = [near]
        if r.random() < 0.3:
            s[far] = enc(w)
            rest.append(far)
        if r.random() < 0.3:
            s["precision"] = r.choice((1, 2, 6))
            rest.append("precision")
        r.shuffle(rest)
        if r.random() < k.p_value:
            s["value"] = enc(w)
            rest.insert(0, "value")
        s["order"] = rest
        return s, w
    w = _pick_float(r, k)
    s = {"t": "float"}
    prec = None
    if r.random() < k.p_constraint * 0.7:
        prec = r.choice((1, 1, 2, 2, 3, 4, 6, 9, 12, 15))
        if r.random() < 0.8:
            w = round(w, prec)          # mostly a grid point; sometimes a value with more digits than the precision
        if w == 0:
            w = 0.0
    order = []
    if r.random() < k.p_value:
        s["value"] = enc(w)
        order.append("value")
    rest = []
    mag = max(abs(w), 1e-3)
    deltas = (0.0, 0.0, 0.05, 0.3, 0.45, 1.0, 7.25, mag * 0.1, mag * 3 if mag < 1e300 else mag * 0.5,
              1e19 if r.random() < k.p_beyond else 2.0, 1e308 if r.random() < k.p_beyond else 0.5)
    inf = float("inf")
    if r.random() < k.p_constraint:
        lo = float(w - r.choice(deltas))
        if lo != lo or abs(lo) == inf:
            lo = -inf if r.random() < 0.5 else None       # overflowed: an infinite bound, or none
        if lo is not None:
            s["min"] = enc(lo)
            rest.append("min")
    elif r.random() < k.p_edge * 0.3:
        s["min"] = enc(r.choice((-inf, -inf, float("nan"))))     # legal, if idle, declarations
        rest.append("min")
    if r.random() < k.p_constraint:
        hi = float(w + r.choice(deltas))
        if hi != hi or abs(hi) == inf:
            hi = inf if r.random() < 0.5 else None
        if hi is not None:
            s["max"] = enc(hi)
            rest.append("max")
    elif r.random() < k.p_edge * 0.3:
        s["max"] = enc(r.choice((inf, inf, float("nan"))))
        rest.append("max")
    if prec is not None:
        s["precision"] = prec
        rest.append("precision")
    r.shuffle(rest)
    if "value" in s and prec is not None and prec <= 6 and abs(w) < 1e6 and r.random() < 0.1:
        # a bound on the wrong side of the pinned value by less than half a grid step, declared *after*
        # value and precision: refused today (-> discarded); a tree that compares rounded values lets it in
        side = r.choice(("min", "max"))
        eps = 0.4 * 10.0 ** -prec
        s[side] = enc(w + eps if side == "min" else w - eps)
        rest = [x for x in rest if x != side]
        s["order"] = order + [x for x in rest if x == "precision"] + [side] + [x for x in rest if x != "precision"]
        return s, w
    s["order"] = order + rest
    return s, w


ALPHABETS = ("ab", "abc", string.ascii_lowercase, string.digits, "01", " ", "xyz_-", string.ascii_letters + string.digits + " -_")
UNI_ALPHABETS = ("äöüß", "日本語", "abéł", "\U0001F600\U0001F601a", "\n\t a", "e\u0301a\u030a", "\u212b\u2126K",
                 "".join(chr(c) for c in range(0x391, 0x3ea) if c != 0x3a2),            # Greek, 88 letters
                 "".join(chr(c) for c in range(0x410, 0x470)),                          # Cyrillic, 96 letters
                 string.printable[:95])


def _gen_str(r, k, depth):
    if k.p_regex and r.random() < k.p_regex:
        return _gen_str_regex(r, k)
    base = r.choice(UNI_ALPHABETS) if r.random() < k.p_unicode else r.choice(ALPHABETS)
    x = r.random()
    if x < 0.5:
        n = r.randint(0, 6)
    elif x < 0.8:
        n = r.randint(7, 32)
    elif r.random() < k.p_beyond:
        n = r.randint(33, 48)
    else:
        n = r.randint(0, 3)
    if r.random() < k.p_edge:
        n = 0
    w = "".join(r.choice(base) for _ in range(n))
    s = {"t": "str"}
    order = []
    if r.random() < k.p_value:
        s["value"] = w
        order.append("value")
    rest = []
    if r.random() < k.p_constraint:
        form = r.choice(("eq", "range", "range", "min", "max"))
        up = r.choice((0, 0, 1, 2, 5, 20))
        down = min(n, r.choice((0, 0, 1, 2, 5, 20)))
        if form == "eq":
            s["len"] = ["eq", n]
        elif form == "range":
            s["len"] = ["range", n - down, n + up]
        elif form == "min":
            s["len"] = ["min", n - down]
        else:
            s["len"] = ["max", n + up]
        if r.random() < 0.04 and s["len"][0] in ("range", "min"):
            s["len"][1] = -r.choice((1, 2, 7))           # a negative lower bound is a legal (idle) declaration
        rest.append("len")
    if r.random() < k.p_constraint:
        x = r.random()
        if x < 0.35:
            alpha = "".join(sorted(set(w)))              # exactly the witness's letters
        elif x < 0.7:
            alpha = "".join(dict.fromkeys(w + base))
        else:
            alpha = "".join(dict.fromkeys(base + w + "Q"))
        if r.random() < 0.3:
            lst = list(alpha)
            r.shuffle(lst)
            alpha = "".join(lst)
        if alpha and r.random() < 0.25:
            # duplicate letters are legal in an alphabet (they only change the odds)
            alpha = alpha + "".join(r.choice(alpha) for _ in range(r.randint(1, 4)))
        s["alphabet"] = alpha
        rest.append("alphabet")
        if r.random() < 0.06:
            # not a str: refused by the DSL today (-> discarded); kept so that a tree which starts to
            # accept it is explored too
            s["alphabet_as"] = r.choice(("list", "tuple", "set", "frozenset"))
    if r.random() < k.p_constraint * 0.7:
        if n:
            a = r.randint(0, n)
            b = r.randint(a, min(n, a + r.choice((0, 1, 2, 3, n))))
            x = r.random()
            if x < 0.15:
                a = 0
            elif x < 0.3:
                b = n
            elif x < 0.4:
                a, b = 0, n
            sub = w[a:b]
        else:
            sub = ""
        s["contains"] = sub
        rest.append("contains")
    r.shuffle(rest)
    s["order"] = order + rest
    return s, w


def _gen_str_regex(r, k):
    cfg = G.Cfg(r, depth=r.choice((1, 2, 3)), budget=r.choice((8, 32, 64)), p_neg=r.choice((0.0, 0.3)),
                size=r.choice((1, 2, 3)), max_repeat=32, p_unsup=k.p_regex_unsup)
    import re
    for _ in range(16):
        if k.p_regex_narrow and r.random() < k.p_regex_narrow:
            # the complement of digits + letters + " -_" (what plain schema.str draws from): satisfiable only
            # while regex generation keeps its own, wider alphabet -- no draw is spent where the knob is off
            items = [{"k": "cat", "c": "w"}, {"k": "lit", "c": " "}, {"k": "lit", "c": "-"}]
            r.shuffle(items)
            node = {"k": "class", "neg": True, "items": items}
            if r.random() < 0.5:
                mn = r.choice((1, 2, 3))
                node = {"k": "rep", "body": node, "min": mn, "max": mn, "lazy": False, "form": "{m}"}
            ast = {"k": "pat", "pre": r.choice((None, "^")), "body": {"k": "seq", "items": [node]},
                   "post": r.choice((None, "$"))}
        else:
            ast = G.gen_pattern(cfg)
        pat = G.render(ast)
        try:
            re.compile(pat)
        except Exception:
            continue
        if not G.member_safe(ast):
            continue      # d42's own validator runs re.search on members: only backtracking-safe shapes (C09 owns the rest)
        if k.p_regex_flags and r.random() < k.p_regex_flags:
            # an inline flag is outside C09's construct lists; only where just reproducibility / purity
            # of the result matters (C07, C17), never where the match itself is judged
            pat = "(?i)" + pat if r.random() < 0.6 else "(?i:" + pat + ")"
            try:
                re.compile(pat)
            except Exception:
                continue
            return {"t": "str", "regex": {"pattern": pat, "ast": ast, "flags": "i"}, "order": ["regex"]}, "x"
        if G.has_unsupported(ast):
            # only where a raising fake() is part of the history under test (C07, C17)
            return {"t": "str", "regex": {"pattern": pat, "ast": ast}, "order": ["regex"]}, "x"
        w = G.sample_min(ast)
        if w is None:
            continue
        s = {"t": "str", "regex": {"pattern": pat, "ast": ast}, "order": ["regex"]}
        if r.random() < k.p_value * 0.5:
            # declaration and validation *search* for the pattern: a pinned value only has to contain a
            # match, so where no anchor forbids it the match sits behind a prefix / before a suffix
            if ast["pre"] is None and r.random() < 0.4:
                w = r.choice(("order-", " ", "x", "\n", "A1_")) + w
            if ast["post"] is None and r.random() < 0.4:
                w = w + r.choice(("-tail", " ", "y", "\n", "9"))
            s["value"] = w
            s["order"] = ["value", "regex"]
        elif r.random() < 0.05:
            # the one length form the DSL lets through in front of .regex(): an upper bound
            s["len"] = ["max", len(w) + r.choice((0, 1, 5))]
            s["order"] = ["len", "regex"]
        elif r.random() < 0.08:
            # combinations the DSL refuses today (-> DeclarationError -> discarded), in both orders; the
            # witness satisfies all of them, so a tree that starts to accept one is explored too
            extra = r.choice(("contains", "alphabet", "len"))
            if extra == "contains":
                a = r.randint(0, len(w))
                s["contains"] = w[a:r.randint(a, len(w))]
            elif extra == "alphabet":
                s["alphabet"] = "".join(dict.fromkeys(w + "ab"))
            else:
                s["len"] = r.choice((["eq", len(w)], ["min", max(0, len(w) - 1)], ["range", 0, len(w) + 2]))
            s["order"] = [extra, "regex"] if r.random() < 0.6 else ["regex", extra]
        return s, w
    return {"t": "str", "order": []}, "x"


def _gen_bytes(r, k, depth):
    w = bytes(r.randrange(256) for _ in range(r.randint(0, 6)))
    s = {"t": "bytes"}
    if r.random() < max(k.p_value, 0.1):
        s["value"] = enc(w)
    return s, w


def _gen_uuid4(r, k, depth):
    w = UUID(int=r.getrandbits(128), version=4)
    s = {"t": "uuid4"}
    if k.no_clock or r.random() < k.p_value:
        s["value"] = enc(w)
    return s, w


def equal_instants():
    from datetime import timezone
    base = datetime(2021, 3, 4, 12, 0, 0, tzinfo=timezone.utc)
    return [base, base.astimezone(timezone(timedelta(hours=3))), base.astimezone(timezone(timedelta(hours=-8))),
            datetime(2021, 11, 7, 1, 30, fold=0), datetime(2021, 11, 7, 1, 30, fold=1)]


def dst_fold_instants():
    """Aware datetimes whose wall time is the repeated hour at the end of DST in a zoneinfo zone: Python
    compares such a value *unequal* to its own conversion to another zone (inter-zone comparison of an
    ambiguous time), so any normalisation of a pinned datetime shows."""
    try:
        from zoneinfo import ZoneInfo
        return [datetime(2021, 10, 31, 2, 30, tzinfo=ZoneInfo("Europe/Berlin"), fold=0),
                datetime(2021, 10, 31, 2, 30, tzinfo=ZoneInfo("Europe/Berlin"), fold=1),
                datetime(2021, 11, 7, 1, 30, tzinfo=ZoneInfo("America/New_York"), fold=1)]
    except Exception:
        return []


def _gen_datetime(r, k, depth):
    if r.random() < 0.08:
        w = r.choice(equal_instants() + dst_fold_instants())
        return ({"t": "datetime", "value": enc(w)} if r.random() < 0.7 or k.no_clock else {"t": "datetime"}), w
    w = datetime(r.randint(1971, 2090), r.randint(1, 12), r.randint(1, 28), r.randint(0, 23),
                 r.randint(0, 59), r.randint(0, 59), r.choice((0, 999999, r.randrange(10 ** 6))))
    if r.random() < 0.1:
        from datetime import timezone
        w = w.replace(tzinfo=timezone(timedelta(hours=r.choice((0, 3, -8)), minutes=r.choice((0, 30)))))
    s = {"t": "datetime"}
    if k.no_clock or r.random() < k.p_value:
        s["value"] = enc(w)
    return s, w


def _gen_date(r, k, depth):
    w = date(r.randint(1971, 2090), r.randint(1, 12), r.randint(1, 28))
    if r.random() < 0.06:
        # a datetime is a date: schema.date(datetime(...)) is a legal declaration
        w = datetime(w.year, w.month, w.day, r.randint(0, 23), r.randint(0, 59), r.randint(0, 59))
        return {"t": "date", "value": enc(w)}, w
    s = {"t": "date"}
    if k.no_clock or r.random() < k.p_value:
        s["value"] = enc(w)
    return s, w


NIL_UUID = UUID(int=0)
V1_UUID = UUID("c232ab00-9414-11ec-b3c8-9f68deced846")


def _filler(r):
    return r.choice((None, 0, 1, "f", [], {}, 2.5, True, [1], {"k": 1}, 1.0, 0.0, -0.0, False, b"b",
                     NIL_UUID, V1_UUID, UUID(int=5, version=4), date(2020, 2, 29), datetime(2020, 2, 29, 1, 2, 3),
                     "e\u0301", "\u212b", {"ok?": None}) + tuple(equal_instants()[:3]) + tuple(dst_fold_instants()[:2]))


def _len_for_typed(r, k, n):
    """a len constraint satisfied by n"""
    form = r.choice(("eq", "range", "range", "min", "max"))
    up = r.choice((0, 0, 1, 2, 5))
    down = min(n, r.choice((0, 0, 1, 2, 5)))
    if form == "eq":
        return ["eq", n]
    if form == "range":
        return ["range", n - down, n + up]
    if form == "min":
        return ["min", n - down]
    return ["max", n + up]


def _gen_list(r, k, depth):
    x = r.random()
    s = {"t": "list"}
    if x < 0.12:
        # untyped
        n = r.randint(0, 4)
        if r.random() < k.p_beyond:
            n = r.randint(17, 24)
        w = [_filler(r) for _ in range(n)]
        if r.random() < k.p_constraint:
            s["len"] = _len_for_typed(r, k, n)
        return s, w
    if x < 0.5:
        # typed
        sub, sw = gen(r, k, depth - 1)
        xx = r.random()
        if xx < 0.6:
            n = r.randint(0, 4)
        elif r.random() < k.p_beyond:
            n = r.randint(17, 24)
        else:
            n = r.randint(0, 16)
        s["type"] = sub
        w = [copy.deepcopy(sw) for _ in range(n)]
        if r.random() < k.p_constraint:
            s["len"] = _len_for_typed(r, k, n)
        return s, w
    # elements, with or without ellipsis
    n = r.randint(0, k.fanout)
    subs = [gen(r, k, depth - 1) for _ in range(n)]
    form = r.choice(("fixed", "fixed", "head", "tail", "body"))
    if form == "body" and n == 0:
        form = "fixed"
    if form == "head" and n == 0:
        form = "fixed"
    specs = [a for a, _ in subs]
    ws = [b for _, b in subs]
    if form == "fixed":
        s["elements"] = specs
        w = ws
        if r.random() < k.p_constraint * 0.5:
            s["len"] = r.choice((["eq", n], ["range", max(0, n - 1), n + 2], ["min", max(0, n - 2)], ["max", n + 1]))
        return s, w
    extra = r.choice((0, 0, 1, 2, 5))
    if r.random() < k.p_beyond:
        extra = r.randint(10, 20)
    fill = [_filler(r) for _ in range(extra)]
    if form == "head":
        s["elements"] = specs + ["..."]
        w = ws + fill
    elif form == "tail":
        s["elements"] = ["..."] + specs
        w = fill + ws
    else:
        s["elements"] = ["..."] + specs + ["..."]
        cut = r.randint(0, extra)
        w = fill[:cut] + ws + fill[cut:]
    if r.random() < k.p_constraint:
        total = n + extra
        s["len"] = r.choice((["eq", total], ["eq", total], ["min", r.randint(0, n)], ["max", total + r.choice((0, 1, 3))],
                             ["range", r.randint(0, n), total + r.choice((0, 2))]))
    return s, w


KEY_POOL = ("id", "name", "a", "b", "c", "key", "value", "items", "x y", "", "d", "e", "f", "g", "created_at", "Z",
            "ok?", "?", "e\u0301")


def _gen_dict(r, k, depth, include_all=False):
    s = {"t": "dict"}
    if r.random() < 0.08 and not include_all:
        w = {r.choice(KEY_POOL): _filler(r) for _ in range(r.randint(0, 2))}
        return s, w                      # schema.dict  (keys Nil)
    n = r.randint(0, k.fanout)
    keys = []
    w = {}
    used = set()
    for _ in range(n):
        if r.random() < 0.12:
            key = r.choice((1, 0, -5, 42, ("a", 1), None, 2.5, b"k"))
        else:
            key = r.choice(KEY_POOL)
        if key in used:
            continue
        used.add(key)
        sub, sw = gen(r, k, depth - 1)
        opt = r.random() < 0.25
        keys.append({"k": enc(key), "opt": opt, "s": sub})
        if not opt or include_all or r.random() < 0.5:
            w[key] = sw
    if r.random() < 0.25:
        keys.insert(r.randint(0, len(keys)), {"ellipsis": True})
        for _ in range(r.randint(0, 2)):
            ek = r.choice(("extra", "zz", 99))
            if ek not in used:
                w[ek] = _filler(r)
    s["keys"] = keys
    return s, w


def _gen_any(r, k, depth):
    if r.random() < 0.08:
        return {"t": "any"}, _filler(r)
    n = r.randint(1, max(1, k.fanout))
    subs = [gen(r, k, depth - 1) for _ in range(n)]
    j = r.randrange(n)
    return {"t": "any", "types": [a for a, _ in subs]}, subs[j][1]


def _gen_alias(r, k, depth):
    sub, sw = gen(r, k, depth - 1)
    return {"t": "alias", "name": r.choice(("Alias", "UserId", "T")), "inner": sub}, sw


EXOTIC_CONTAINERS = (
    {"alpha", "beta", "gamma"}, frozenset(("x", "y")), {"tag-1", "tag-2", "tag-3", "tag-4"}, ("a", "b"), (1, "z"),
    {0, 8}, frozenset((16, 0, 8)), {"k": {"read", "write"}}, [("p", 1), {"q", "r"}],
)


def gen_plain(r, depth=2, exotic=0.0):
    """A plain nested value (for from_native and untyped positions).  `exotic`: chance of a container
    from_native does not convert today (tuple / set / frozenset; the declaration then raises and the
    spec is discarded) -- a tree that learns to convert them is explored like everything else."""
    if exotic and r.random() < exotic:
        import copy
        return copy.deepcopy(r.choice(EXOTIC_CONTAINERS))
    x = r.random()
    if depth > 0 and x < 0.25:
        return [gen_plain(r, depth - 1) for _ in range(r.randint(0, 3))]
    if depth > 0 and x < 0.5:
        return {r.choice(KEY_POOL): gen_plain(r, depth - 1) for _ in range(r.randint(0, 3))}
    return _filler(r)


def _ints_for_floats(v):
    t = type(v)
    if t is float and v == v and abs(v) < 1e15:
        return int(round(v))
    if t is list:
        return [_ints_for_floats(x) for x in v]
    if t is dict:
        return {kk: _ints_for_floats(x) for kk, x in v.items()}
    return v


def _gen_op(r, k, depth):
    op = r.choice(("+", "|", "%", "%", "make_required", "from_native"))
    if op == "from_native":
        v = gen_plain(r, min(depth, 3), exotic=0.1)
        if k.no_clock is False or True:
            return {"t": "op", "op": "from_native", "v": enc(v)}, v
    if op == "|":
        a, aw = gen(r, k, depth - 1)
        b, bw = gen(r, k, depth - 1)
        return {"t": "op", "op": "|", "a": a, "b": b}, (aw if r.random() < 0.5 else bw)
    if op == "+":
        if "dict" not in k.types:
            return None
        a, aw = _gen_dict(r, k, depth - 1)
        b, bw = _gen_dict(r, k, depth - 1)
        if "keys" not in a or "keys" not in b:
            return None
        # merged witness: b's keys override a's; optional-ness follows the overriding entry
        bkeys = {repr(e.get("k")) for e in b["keys"] if "k" in e}
        w = {kk: vv for kk, vv in aw.items() if repr(enc(kk)) not in bkeys}
        w.update(bw)
        return {"t": "op", "op": "+", "a": a, "b": b}, w
    if op == "make_required":
        if "dict" not in k.types:
            return None
        a, aw = _gen_dict(r, k, depth - 1, include_all=True)
        ks = [e for e in a["keys"] if "k" in e]
        sel = None if r.random() < 0.4 else [e["k"] for e in ks if r.random() < 0.6]
        return {"t": "op", "op": "make_required", "s": a, "keys": sel}, aw
    # "%": substitute (a part of) the witness
    a, aw = gen(r, k, depth - 1)
    v = partial_of(aw, r, p_drop=r.choice((0.0, 0.3, 0.7)))
    if r.random() < 0.06:
        # JSON-like payloads carry 10 where the schema says float: refused today (the spec is discarded),
        # explored on a tree that lets it through
        v = _ints_for_floats(v)
    if k.p_placeholder and r.random() < k.p_placeholder:
        v = with_placeholders(v, r)
        # `...` widens what the result accepts; the full witness still conforms
    return {"t": "op", "op": "%", "s": a, "v": enc(v)}, aw


def witness_of(spec, r):
    """Re-derive *a* witness of a spec (used where generation did not keep one)."""
    t = spec["t"]
    if "value" in spec:
        return dec(spec["value"])
    if t == "none":
        return None
    if t == "bool":
        return True
    if t == "int":
        if "min" in spec:
            return dec(spec["min"])
        if "max" in spec:
            return dec(spec["max"])
        return 0
    if t == "float":
        lo = dec(spec["min"]) if "min" in spec else None
        hi = dec(spec["max"]) if "max" in spec else None
        if lo is not None and hi is not None:
            return (lo + hi) / 2 if lo != hi else lo
        if lo is not None:
            return lo
        if hi is not None:
            return hi
        return 0.0
    if t == "str":
        if "regex" in spec:
            return G.sample_min(spec["regex"]["ast"]) or ""
        sub = spec.get("contains", "")
        alpha = spec.get("alphabet")
        pad = (alpha[0] if alpha else "a")
        want = 0
        ln = spec.get("len")
        if ln:
            want = ln[1] if ln[0] in ("eq", "range", "min") else 0
        s = sub
        while len(s) < want:
            s += pad
        return s
    if t == "bytes":
        return b""
    if t == "uuid4":
        return UUID(int=1, version=4)
    if t == "datetime":
        return datetime(2020, 1, 1)
    if t == "date":
        return date(2020, 1, 1)
    if t == "list":
        if "type" in spec:
            n = 0
            ln = spec.get("len")
            if ln:
                n = ln[1] if ln[0] in ("eq", "range", "min") else 0
            return [witness_of(spec["type"], r) for _ in range(n)]
        if "elements" in spec:
            out = [witness_of(e, r) for e in spec["elements"] if e != "..."]
            ln = spec.get("len")
            if ln and ln[0] == "eq":
                while len(out) < ln[1]:
                    out.append(None) if spec["elements"][0] != "..." else out.insert(0, None)
            return out
        ln = spec.get("len")
        n = (ln[1] if ln and ln[0] in ("eq", "range", "min") else 0)
        return [None] * n
    if t == "dict":
        return {dec(e["k"]): witness_of(e["s"], r) for e in spec.get("keys", []) if "k" in e and not e["opt"]}
    if t == "any":
        if spec.get("types"):
            return witness_of(spec["types"][0], r)
        return None
    if t in ("alias", "hooked"):
        return witness_of(spec["inner"], r)
    if t == "op":
        op = spec["op"]
        if op == "|":
            return witness_of(spec["a"], r)
        if op == "+":
            w = witness_of(spec["a"], r)
            w.update(witness_of(spec["b"], r))
            return w
        if op == "make_required":
            w = witness_of(spec["s"], r)
            for e in spec["s"].get("keys", []):
                if "k" in e and dec(e["k"]) not in w:
                    w[dec(e["k"])] = witness_of(e["s"], r)
            return w
        if op == "%":
            return _overlay(witness_of(spec["s"], r), dec(spec["v"]))
        if op == "from_native":
            return dec(spec["v"])
    raise ValueError(t)


def _overlay(w, v):
    if type(w) is dict and type(v) is dict:
        out = dict(w)
        for kk, vv in v.items():
            out[kk] = _overlay(w[kk], vv) if kk in w else vv
        return out
    return v


def with_placeholders(v, r, depth=0):
    """Replace some members of a plain value by the `...` placeholder (dict values; first/last
    list elements), as substitution allows."""
    if type(v) is dict and v:
        out = {}
        for kk, vv in v.items():
            if r.random() < 0.35:
                out[kk] = ...
            else:
                out[kk] = with_placeholders(vv, r, depth + 1)
        return out
    if type(v) is list and v:
        out = [with_placeholders(x, r, depth + 1) for x in v]
        x = r.random()
        if x < 0.35:
            out[-1] = ...
        elif x < 0.6:
            out[0] = ...
        elif x < 0.7 and len(out) > 1:
            out[0] = ...
            out[-1] = ...
        elif x < 0.8:
            out.append(...)
        elif x < 0.9:
            out.insert(0, ...)
        return out
    return v


def partial_of(w, r, p_drop=0.3):
    """A plain value that is (a part of) witness w: dict keys dropped at any depth."""
    if type(w) is dict:
        out = {}
        for kk, vv in w.items():
            if r.random() < p_drop:
                continue
            out[kk] = partial_of(vv, r, p_drop)
        return out
    if type(w) is list:
        return [partial_of(x, r, p_drop) for x in w]
    return w


# ------------------------------------------------------------------ building through the DSL

class Env:
    def __init__(self):
        import d42
        from d42 import optional, schema
        from d42.declaration import DeclarationError
        from d42.substitution.errors import SubstitutionError
        from d42.utils import make_required
        self.d42 = d42
        self.schema = schema
        self.optional = optional
        self.make_required = make_required
        from d42.utils import from_native
        self.from_native = from_native
        self.DeclarationError = DeclarationError
        self.SubstitutionError = SubstitutionError
        self.retain = None        # callable(container, role) -> None ; C07 keeps every container handed to d42
        self.Hooked = None        # forwarding CustomSchema class (C07 only)


def _apply_len(sch, ln):
    if ln[0] == "eq":
        return sch.len(ln[1])
    if ln[0] == "range":
        return sch.len(ln[1], ln[2])
    if ln[0] == "min":
        return sch.len(ln[1], ...)
    return sch.len(..., ln[1])


def build(spec, env):
    try:
        return _build(spec, env)
    except (env.DeclarationError, env.SubstitutionError) as e:
        raise BuildError("%s: %s" % (type(e).__name__, e)) from None
    except RecursionError:
        raise BuildError("RecursionError") from None
    except Exception as e:
        # a derivation inside the spec crashed in d42 (exception *types* are C12's business)
        raise BuildError("other:%s: %s" % (type(e).__name__, e)) from None


def _build(spec, env):
    sc = env.schema
    t = spec["t"]
    if t == "none":
        return sc.none
    if t == "bool":
        return sc.bool(spec["value"]) if "value" in spec else sc.bool
    if t in ("int", "float"):
        s = sc.int if t == "int" else sc.float
        order = spec.get("order") or [x for x in ("value", "min", "max", "precision") if x in spec]
        for o in order:
            if o == "value":
                s = s(dec(spec["value"]))
            elif o == "min":
                s = s.min(dec(spec["min"]))
            elif o == "max":
                s = s.max(dec(spec["max"]))
            elif o == "precision":
                s = s.precision(spec["precision"])
        return s
    if t == "str":
        s = sc.str
        order = spec.get("order")
        if order is None:
            order = [x for x in ("value", "len", "alphabet", "contains", "regex") if x in spec]
        for o in order:
            if o == "value":
                s = s(spec["value"])
            elif o == "len":
                s = _apply_len(s, spec["len"])
            elif o == "alphabet":
                alpha = spec["alphabet"]
                conv = spec.get("alphabet_as")
                if conv:
                    alpha = {"list": list, "tuple": tuple, "set": set, "frozenset": frozenset}[conv](alpha)
                    if conv == "list" and env.retain:
                        env.retain(alpha, "declared_list")
                s = s.alphabet(alpha)
            elif o == "contains":
                s = s.contains(spec["contains"])
            elif o == "regex":
                s = s.regex(spec["regex"]["pattern"])
        return s
    if t == "bytes":
        return sc.bytes(dec(spec["value"])) if "value" in spec else sc.bytes
    if t == "uuid4":
        return sc.uuid4(dec(spec["value"])) if "value" in spec else sc.uuid4
    if t == "datetime":
        return sc.datetime(dec(spec["value"])) if "value" in spec else sc.datetime
    if t == "date":
        return sc.date(dec(spec["value"])) if "value" in spec else sc.date
    if t == "list":
        s = sc.list
        if "type" in spec:
            s = s(_build(spec["type"], env))
        elif "elements" in spec:
            lst = [... if e == "..." else _build(e, env) for e in spec["elements"]]
            if env.retain:
                env.retain(lst, "declared_list")
            s = s(lst)
        if "len" in spec:
            s = _apply_len(s, spec["len"])
        return s
    if t == "dict":
        if "keys" not in spec:
            return sc.dict
        d = {}
        for e in spec["keys"]:
            if e.get("ellipsis"):
                d[...] = ...
            else:
                key = dec(e["k"])
                d[env.optional(key) if e["opt"] else key] = _build(e["s"], env)
        if env.retain:
            env.retain(d, "declared_dict")
        return sc.dict(d)
    if t == "any":
        if "types" not in spec:
            return sc.any
        return sc.any(*[_build(x, env) for x in spec["types"]])
    if t == "alias":
        return sc.alias(spec["name"], _build(spec["inner"], env))
    if t == "hooked":
        if env.Hooked is None:
            raise BuildError("hooked type not available")
        return env.Hooked()(_build(spec["inner"], env))
    if t == "op":
        op = spec["op"]
        if op == "|":
            return _build(spec["a"], env) | _build(spec["b"], env)
        if op == "+":
            return _build(spec["a"], env) + _build(spec["b"], env)
        if op == "%":
            val = dec(spec["v"])
            if env.retain and type(val) in (list, dict):
                env.retain(val, "substitute_arg")
            return _build(spec["s"], env) % val
        if op == "from_native":
            val = dec(spec["v"])
            if env.retain and type(val) in (list, dict):
                env.retain(val, "from_native_arg")
            return env.from_native(val)
        if op == "make_required":
            ks = spec["keys"]
            kl = None if ks is None else [dec(x) for x in ks]
            if env.retain and kl is not None:
                env.retain(kl, "make_required_keys")
            return env.make_required(_build(spec["s"], env), kl)
    raise ValueError("unknown spec %r" % (spec,))


def has_unfixed_clock(spec):
    t = spec["t"]
    if t in ("uuid4", "datetime", "date"):
        return "value" not in spec
    return any(has_unfixed_clock(c) for c in children(spec))


def children(spec):
    t = spec["t"]
    if t == "list":
        if "type" in spec:
            return [spec["type"]]
        return [e for e in spec.get("elements", []) if e != "..."]
    if t == "dict":
        return [e["s"] for e in spec.get("keys", []) if "s" in e]
    if t == "any":
        return list(spec.get("types", []))
    if t in ("alias", "hooked"):
        return [spec["inner"]]
    if t == "op":
        return [spec[x] for x in ("a", "b", "s") if x in spec]
    return []


def shape(spec):
    """Abstract shape signature (types + which constraints), for the distinctness measure."""
    t = spec["t"]
    if t == "op":
        return "(%s %s)" % (spec["op"], " ".join(shape(c) for c in children(spec)))
    cons = sorted(x for x in spec if x not in ("t", "order", "type", "elements", "keys", "types", "inner", "name"))
    extra = ""
    if t == "list" and "elements" in spec:
        extra = "".join("." if e == "..." else "e" for e in spec["elements"])
    if t == "str" and "len" in spec:
        extra = spec["len"][0]
    if t == "list" and "len" in spec:
        extra += spec["len"][0]
    if t == "dict" and "keys" in spec:
        extra = "".join("." if e.get("ellipsis") else ("o" if e["opt"] else "r") for e in spec["keys"])
    kids = children(spec)
    return "%s[%s%s]%s" % (t, ",".join(cons), extra, ("(" + " ".join(shape(c) for c in kids) + ")") if kids else "")


# ------------------------------------------------------------------ features of real schema objects

def feat(schema):
    """(kind, sorted features) of a *real* schema object, read through its public props."""
    from niltype import Nil
    kind = type(schema).__name__
    p = schema.props
    f = set()

    def has(name):
        return p.get(name) is not Nil

    for name in ("value", "min", "max", "precision", "len", "min_len", "max_len", "alphabet", "substr",
                 "pattern", "type", "elements", "keys", "types"):
        try:
            if has(name):
                f.add(name)
        except Exception:
            pass
    try:
        if kind == "IntSchema":
            if has("min") and p.get("min") > INT63 - 1:
                f.add("min>default_max")
            if has("max") and p.get("max") < -INT63:
                f.add("max<default_min")
        elif kind == "FloatSchema":
            if has("min") and p.get("min") > float(INT63 - 1):
                f.add("min>default_max")
            if has("max") and p.get("max") < float(-INT63):
                f.add("max<default_min")
            if has("precision"):
                if has("min") and p.get("min") < 0:
                    f.add("min_negative")
                if has("max") and p.get("max") < 0:
                    f.add("max_negative")
                sc = 10 ** p.get("precision")
                for b in ("min", "max"):
                    if has(b):
                        v = p.get(b)
                        if abs(v * sc) != float("inf") and round(round(v * sc) / sc, p.get("precision")) != v:
                            f.add(b + "_off_grid")
            if has("min") and has("max") and (p.get("max") - p.get("min")) == float("inf"):
                f.add("span_overflows")
            if has("precision"):
                for b in ("min", "max", "value"):
                    if has(b) and isinstance(p.get(b), float) and abs(p.get(b) * 10 ** p.get("precision")) == float("inf"):
                        f.add("bound_times_scale_overflows")
            v = p.get("value")
            if has("value") and isinstance(v, float) and (v != v):
                f.add("value_nan")
            if has("value") and isinstance(v, float) and v in (float("inf"), float("-inf")):
                f.add("value_inf")
        elif kind == "StrSchema":
            if has("alphabet") and p.get("alphabet") == "":
                f.add("alphabet_empty")
            if (has("len") and p.get("len") > 32) or (has("min_len") and p.get("min_len") > 32):
                f.add("len>default_max")
        elif kind == "ListSchema":
            if (has("len") and p.get("len") > 16) or (has("min_len") and p.get("min_len") > 16):
                f.add("len>default_max")
            if has("elements"):
                els = p.get("elements")
                n = len(els)
                e0 = n > 0 and els[0] is ...
                e1 = n > 0 and els[-1] is ...
                if n > 2 and e0 and e1:
                    f.add("ellipsis_body")
                elif n >= 2 and e1:
                    f.add("ellipsis_head")
                elif n >= 1 and e0:
                    f.add("ellipsis_tail")
                if len(els) == 0:
                    f.add("elements_empty")
        elif kind == "DictSchema":
            if has("keys"):
                ks = p.get("keys")
                if ... in ks:
                    f.add("relaxed")
                if any(opt for kk, (vv, opt) in ks.items() if kk is not ...):
                    f.add("optional")
                if any((kk is not ...) and not hasattr(vv, "props") for kk, (vv, opt) in ks.items()):
                    f.add("member_is_not_a_schema")
        elif kind == "AnySchema":
            if has("types") and len(p.get("types")) == 0:
                f.add("types_empty")
            if has("types"):
                for t in p.get("types"):
                    for _ in range(6):                       # look through aliases / forwarding custom types
                        nm = type(t).__name__
                        if "TypeAlias" in nm:
                            t = t.props.type
                        elif nm == "HookedSchema":
                            t = t.props.inner
                        else:
                            break
                    if type(t).__name__ == "DictSchema" and t.props.get("keys") is not Nil and ... in t.props.get("keys"):
                        f.add("alt_relaxed_dict")
    except Exception:
        f.add("feat_error")
    return kind, sorted(f)


def localise_invalid(schema, value, validate):
    """Deepest schema node whose own validation of its part of `value` fails while every
    child it can be matched against passes.  Walks the real object through public props."""
    from niltype import Nil
    try:
        p = schema.props
        kind = type(schema).__name__
        if kind == "DictSchema" and isinstance(value, dict) and p.get("keys") is not Nil:
            for kk, (vs, opt) in p.get("keys").items():
                if kk is ... or kk not in value:
                    continue
                if validate(vs, value[kk]).has_errors():
                    return localise_invalid(vs, value[kk], validate)
        elif kind == "ListSchema" and isinstance(value, list):
            if p.get("type") is not Nil:
                for x in value:
                    if validate(p.get("type"), x).has_errors():
                        return localise_invalid(p.get("type"), x, validate)
            elif p.get("elements") is not Nil:
                els = p.get("elements")
                if not any(e is ... for e in els) and len(els) == len(value):
                    for e, x in zip(els, value):
                        if validate(e, x).has_errors():
                            return localise_invalid(e, x, validate)
        elif "TypeAlias" in kind:
            return localise_invalid(p.type, value, validate)
    except Exception:
        pass
    return schema


def culprit_from_traceback(tb):
    """Innermost frame with a local named `schema` (the visit_* that was running)."""
    found = None
    while tb is not None:
        loc = tb.tb_frame.f_locals
        s = loc.get("schema")
        if s is not None and hasattr(s, "props"):
            found = s
        tb = tb.tb_next
    return found


# ------------------------------------------------------------------ shrinking of specs

def shrink_spec(spec):
    """Yield smaller specs (tree surgery)."""
    t = spec["t"]
    # hoist children
    for c in children(spec):
        yield c
    if t == "op":
        for name in ("a", "b", "s"):
            if name in spec:
                for c in shrink_spec(spec[name]):
                    yield dict(spec, **{name: c})
        if spec["op"] == "%":
            v = dec(spec["v"])
            for sv in shrink_value(v):
                yield dict(spec, v=enc(sv))
        return
    # drop one constraint at a time
    for name in ("value", "min", "max", "precision", "len", "alphabet", "contains", "regex"):
        if name in spec:
            c = {kk: vv for kk, vv in spec.items() if kk != name}
            if "order" in c:
                c["order"] = [o for o in c["order"] if o != name]
            yield c
    if t == "list":
        if "elements" in spec:
            els = spec["elements"]
            for i in range(len(els)):
                yield dict(spec, elements=els[:i] + els[i + 1:])
            for i, e in enumerate(els):
                if e == "...":
                    continue
                for c in shrink_spec(e):
                    yield dict(spec, elements=els[:i] + [c] + els[i + 1:])
        if "type" in spec:
            for c in shrink_spec(spec["type"]):
                yield dict(spec, type=c)
        if "len" in spec:
            ln = spec["len"]
            for i in range(1, len(ln)):
                if isinstance(ln[i], int) and ln[i] > 0:
                    for nv in (0, ln[i] // 2, ln[i] - 1):
                        if nv != ln[i]:
                            yield dict(spec, len=ln[:i] + [nv] + ln[i + 1:])
    elif t == "dict" and "keys" in spec:
        ks = spec["keys"]
        for i in range(len(ks)):
            yield dict(spec, keys=ks[:i] + ks[i + 1:])
        for i, e in enumerate(ks):
            if "s" in e:
                if e["opt"]:
                    yield dict(spec, keys=ks[:i] + [dict(e, opt=False)] + ks[i + 1:])
                for c in shrink_spec(e["s"]):
                    yield dict(spec, keys=ks[:i] + [dict(e, s=c)] + ks[i + 1:])
    elif t == "any" and "types" in spec:
        ts = spec["types"]
        if len(ts) > 1:
            for i in range(len(ts)):
                yield dict(spec, types=ts[:i] + ts[i + 1:])
        for i, e in enumerate(ts):
            for c in shrink_spec(e):
                yield dict(spec, types=ts[:i] + [c] + ts[i + 1:])
    elif t in ("alias", "hooked"):
        for c in shrink_spec(spec["inner"]):
            yield dict(spec, inner=c)
    elif t == "str":
        if "len" in spec:
            ln = spec["len"]
            for i in range(1, len(ln)):
                if isinstance(ln[i], int) and ln[i] > 0:
                    for nv in (0, ln[i] // 2, ln[i] - 1):
                        if nv != ln[i]:
                            yield dict(spec, len=ln[:i] + [nv] + ln[i + 1:])
        for name in ("alphabet", "contains", "value"):
            if name in spec and len(spec[name]) > 0:
                sv = spec[name]
                yield dict(spec, **{name: sv[:len(sv) // 2]})
                yield dict(spec, **{name: sv[1:]})
                yield dict(spec, **{name: sv[:-1]})
        if "regex" in spec:
            for ast in G.shrink_candidates(spec["regex"]["ast"]):
                yield dict(spec, regex={"pattern": G.render(ast), "ast": ast})
    elif t in ("int", "float"):
        for name in ("value", "min", "max"):
            if name in spec:
                v = dec(spec[name])
                for nv in _shrink_num(v):
                    yield dict(spec, **{name: enc(nv)})
        if "precision" in spec and spec["precision"] > 1:
            yield dict(spec, precision=1)
            yield dict(spec, precision=spec["precision"] - 1)


def _shrink_num(v):
    if isinstance(v, bool):
        return
    if isinstance(v, int):
        for nv in (0, 1, -1, int(v / 2), v - 1 if v > 0 else v + 1):
            if nv != v and abs(nv) < abs(v) or (nv != v and abs(nv) == abs(v) and nv > v):
                yield nv
    elif isinstance(v, float):
        if v != v or v in (float("inf"), float("-inf")):
            return
        for nv in (0.0, 1.0, -1.0, float(int(v)), round(v, 1), round(v, 2)):
            if nv != v and len(repr(nv)) < len(repr(v)):
                yield nv
        if abs(v) > 2:
            yield float(int(v / 2))


def shrink_value(v):
    if type(v) is dict:
        for kk in list(v):
            yield {a: b for a, b in v.items() if a != kk}
        for kk, vv in v.items():
            for s in shrink_value(vv):
                yield {**v, kk: s}
    elif type(v) is list:
        for i in range(len(v)):
            yield v[:i] + v[i + 1:]
        for i, x in enumerate(v):
            for s in shrink_value(x):
                yield v[:i] + [s] + v[i + 1:]
    elif type(v) is str:
        if v:
            yield ""
            yield v[:len(v) // 2]
            yield v[1:]
    elif type(v) in (int, float):
        yield from _shrink_num(v)


def hash_seed_sensitive(spec):
    """True if generation from this spec legitimately depends on PYTHONHASHSEED on the current
    tree (regex with a negated class, known finding KF-C17-1): such values stay out of the
    cross-interpreter determinism digests."""
    if spec["t"] == "str" and "regex" in spec and "class_neg" in G.features(spec["regex"]["ast"]):
        return True
    return any(hash_seed_sensitive(c) for c in children(spec))
