"""C07 cold-start probe (run as a script in a *new* interpreter, one per first operation).

`python coldstart.py <d42-src> <op-name>`: after nothing but `from d42 import schema` the named public
operation is executed as the very first thing the interpreter does with d42, then every sub-package is
imported and touched, then all operations are executed again.  "Repeating an operation on equal inputs
gives equal results regardless of what was executed in between" -- here what lies in between is the rest
of the package being loaded.  All schemas carry fixed values, so no draw is involved.  Prints one JSON
line {"first": [name, outcome], "after": {name: outcome}}.
"""
import json
import sys


def outcome(fn):
    try:
        r = fn()
    except BaseException as e:      # noqa: B902 - the outcome *is* the exception
        return ["raise", type(e).__name__, str(e)[:200]]
    return ["ok", repr(r)[:400]]


def main():
    src, name = sys.argv[1], sys.argv[2]
    sys.path.insert(0, src)
    from d42 import schema            # the only import a user needs to write `~s`, `s % v`, `s == v` ...

    s_int = schema.int(7)
    s_dict = schema.dict({"a": schema.str("x"), "n": s_int})
    s_list = schema.list([s_int, schema.none])

    def d42_attr(attr, *args):
        import d42
        return getattr(d42, attr)(*args)

    def util(attr, *args):
        import d42.utils
        return getattr(d42.utils, attr)(*args)

    ops = {
        "invert": lambda: ~s_int,
        "invert_dict": lambda: ~s_dict,
        "mod": lambda: s_dict % {"a": "x"},
        "mod_raises": lambda: s_int % "no",
        "eq_value": lambda: s_dict == {"a": "x", "n": 7},
        "ne_value": lambda: s_int != 8,
        "repr": lambda: repr(s_list),
        "or": lambda: s_int | schema.str,
        "add": lambda: s_dict + schema.dict({"b": schema.bool(True)}),
        "getitem": lambda: s_dict["a"],
        "keys": lambda: list(s_dict.keys()),
        "refine_raises": lambda: s_int(8),
        "fake": lambda: d42_attr("fake", s_list),
        "validate": lambda: d42_attr("validate", s_dict, {"a": "y"}).get_errors().__len__(),
        "validate_or_fail": lambda: d42_attr("validate_or_fail", s_int, 8),
        "substitute": lambda: d42_attr("substitute", s_list, [7, None]),
        "represent": lambda: d42_attr("represent", s_dict),
        "from_native": lambda: util("from_native", {"k": [1, None]}),
        "make_required": lambda: util("make_required", schema.dict({d42_attr("optional", "o"): s_int})),
        "rollout": lambda: util("rollout", {"a.b": s_int}),
    }
    if name == "--list":
        print(json.dumps(sorted(ops)))
        return
    first = [name, outcome(ops[name])]
    # load and touch everything
    import importlib
    for mod in ("d42", "d42.declaration", "d42.declaration.types", "d42.generation", "d42.validation",
                "d42.substitution", "d42.representation", "d42.utils"):
        try:
            m = importlib.import_module(mod)
            for a in getattr(m, "__all__", ()):
                getattr(m, a, None)
        except Exception:
            pass
    after = {n: outcome(f) for n, f in ops.items()}
    print(json.dumps({"first": first, "after": after}))


if __name__ == "__main__":
    main()
