"""The simulated world: PRNG seam, clock seam, entropy seam, and their installation.

The system under test (d42) is imported unmodified.  The three stdlib things it reads
nondeterminism from are rebound, inside d42's own modules only, to objects owned by the
run's World.  Every outcome returned here is one the real stdlib could return for the same
arguments, so anything the simulation makes d42 do, a production run can do too.
"""
import operator
import random as _real_random
import sys
import types
import uuid as _uuid_mod
from datetime import date as _real_date
from datetime import datetime as _real_datetime
from datetime import timedelta

from .core import derive

SELECTORS = ("lo", "hi", "lo1", "hi1", "mid", "rnd")


class Schedule:
    """Decides the selector of draw number i.  Pure data: {policy, seed, p, overrides}."""

    def __init__(self, policy="rnd", seed=0, p=0.3, overrides=None, clock=None, entropy="rnd", sites=None):
        self.policy = policy
        self.seed = seed
        self.p = p
        self.overrides = dict(overrides or {})
        self.sites = dict(sites or {})   # draw site (d42 function name) or "kind:<randint|choice|...>" -> selector
        self.clock = clock          # JSON of a SimClockScript, or None (default clock)
        self.entropy = entropy      # "rnd" | "zero" | "ones"  (payload of the first uuid4)
        self._mix = None

    def to_json(self):
        j = {"policy": self.policy, "seed": self.seed, "p": self.p,
             "overrides": {str(k): v for k, v in sorted(self.overrides.items())}}
        if self.clock is not None:
            j["clock"] = self.clock
        if self.entropy != "rnd":
            j["entropy"] = self.entropy
        if self.sites:
            j["sites"] = dict(sorted(self.sites.items()))
        return j

    @classmethod
    def from_json(cls, j):
        return cls(j.get("policy", "rnd"), j.get("seed", 0), j.get("p", 0.3),
                   {int(k): v for k, v in (j.get("overrides") or {}).items()},
                   j.get("clock"), j.get("entropy", "rnd"), j.get("sites"))

    def reset(self):
        self._mix = _real_random.Random(derive("sched-mix", self.seed))

    def selector(self, i, kind=None):
        ov = self.overrides.get(i)
        if ov is not None:
            return ov
        if self.sites:
            ov = self.sites.get(_site(3)) or self.sites.get("kind:%s" % kind)
            if ov is not None:
                return ov
        pol = self.policy
        if pol in ("lo", "hi", "rnd", "mid", "lo1", "hi1"):
            return pol
        if pol == "alt":
            return "lo" if i % 2 == 0 else "hi"
        if pol == "alt2":
            return "hi" if i % 2 == 0 else "lo"
        if pol == "mix":
            r = self._mix.random()
            if r < self.p:
                return ("lo", "hi", "lo1", "hi1")[self._mix.randrange(4)]
            return "rnd"
        raise ValueError("unknown policy %r" % (pol,))


class SimStdRandom(types.ModuleType):
    """Stands in for the stdlib `random` *module* inside d42.

    Public surface used by d42 today: seed, randint, uniform, choice, shuffle.  A wider
    surface (random, randrange, getrandbits, sample, choices) is provided with the same
    fidelity so that a refactoring of d42 that stays within the stdlib `random` API is
    still owned by the simulator instead of failing on a missing attribute.
    """

    def __init__(self, world):
        super().__init__("random")
        self._w = world

    # -- helpers
    def _sel(self, kind):
        return self._w._next_selector(kind)

    def _u(self, sel):
        if sel == "lo":
            return 0.0
        if sel == "hi":
            return 1.0 - 2.0 ** -53
        if sel == "mid":
            return 0.5
        if sel == "lo1":
            return 2.0 ** -53
        if sel == "hi1":
            return 1.0 - 2.0 ** -52
        return self._w._stream.random()

    def _index(self, sel, n):
        """index in range(n), n >= 1"""
        if sel == "lo":
            return 0
        if sel == "hi":
            return n - 1
        if sel == "lo1":
            return 1 if n > 1 else 0
        if sel == "hi1":
            return n - 2 if n > 1 else 0
        if sel == "mid":
            return n // 2
        return self._w._stream.randrange(n)

    # -- the stdlib API
    def seed(self, a=None, version=2):
        self._w._log("seed", _summ(a), "-", None)
        self._w.stats["seed_calls"] += 1
        self._w._stream = _real_random.Random(derive("stream", self._w.stream_seed, repr(a)))

    def random(self):
        sel = self._sel("random")
        u = self._u(sel)
        self._w._log("random", "", sel, u)
        return u

    def getrandbits(self, k):
        sel = self._sel("getrandbits")
        if k < 0:
            raise ValueError("number of bits must be non-negative")
        if k == 0:
            r = 0
        else:
            r = self._index(sel, 1 << k)
        self._w._log("getrandbits", k, sel, r)
        return r

    def randrange(self, start, stop=None, step=1):
        istart = operator.index(start)
        if stop is None:
            if step != 1:
                raise TypeError("Missing a non-None stop argument")
            if istart > 0:
                sel = self._sel("randrange")
                r = self._index(sel, istart)
                self._w._log("randrange", (istart,), sel, r)
                return r
            raise ValueError("empty range for randrange()")
        istop = operator.index(stop)
        istep = operator.index(step)
        width = istop - istart
        if istep == 1:
            if width > 0:
                sel = self._sel("randrange")
                r = istart + self._index(sel, width)
                self._w._log("randrange", (istart, istop), sel, r)
                return r
            raise ValueError("empty range in randrange(%d, %d)" % (istart, istop))
        if istep > 0:
            n = (width + istep - 1) // istep
        elif istep < 0:
            n = (width + istep + 1) // istep
        else:
            raise ValueError("zero step for randrange()")
        if n <= 0:
            raise ValueError("empty range in randrange(%d, %d, %d)" % (istart, istop, istep))
        sel = self._sel("randrange")
        r = istart + istep * self._index(sel, n)
        self._w._log("randrange", (istart, istop, istep), sel, r)
        return r

    def randint(self, a, b):
        ia = operator.index(a)
        ib = operator.index(b)
        if ia > ib:
            self._w.stats["randint_empty_range"] += 1
            self._w._log("randint", (ia, ib), "-", "ValueError")
            raise ValueError("empty range in randrange(%d, %d)" % (ia, ib + 1))
        sel = self._sel("randint")
        r = ia + self._index(sel, ib - ia + 1)
        self._w._log("randint", (ia, ib), sel, r)
        return r

    def uniform(self, a, b):
        sel = self._sel("uniform")
        u = self._u(sel)
        r = a + (b - a) * u
        self._w._log("uniform", (a, b), sel, r)
        return r

    def choice(self, seq):
        n = len(seq)
        if not n:
            self._w.stats["choice_empty"] += 1
            self._w._log("choice", 0, "-", "IndexError")
            raise IndexError("Cannot choose from an empty sequence")
        sel = self._sel("choice")
        i = self._index(sel, n)
        self._w._log("choice", n, sel, i)
        return seq[i]

    def shuffle(self, x):
        for i in reversed(range(1, len(x))):
            sel = self._sel("shuffle")
            j = self._index(sel, i + 1)
            self._w._log("shuffle", i + 1, sel, j)
            x[i], x[j] = x[j], x[i]

    def sample(self, population, k, *, counts=None):
        pool = list(population)
        n = len(pool)
        if not 0 <= k <= n:
            raise ValueError("Sample larger than population or is negative")
        out = []
        for _ in range(k):
            sel = self._sel("sample")
            j = self._index(sel, len(pool))
            self._w._log("sample", len(pool), sel, j)
            out.append(pool.pop(j))
        return out

    def choices(self, population, weights=None, *, cum_weights=None, k=1):
        n = len(population)
        if not n:
            raise IndexError("Cannot choose from an empty sequence")
        out = []
        for _ in range(k):
            sel = self._sel("choices")
            j = self._index(sel, n)
            self._w._log("choices", n, sel, j)
            out.append(population[j])
        return out

    def __getattr__(self, name):
        # anything else: deterministic, seeded, counted as "unowned"
        if name.startswith("__"):
            raise AttributeError(name)
        self._w.stats["unowned_random_attr"] += 1
        return getattr(self._w._stream, name)


def _summ(a):
    r = repr(a)
    return r if len(r) <= 40 else r[:37] + "..."


import time as _real_time   # noqa: E402

_TIME_FUNCS = ("time", "monotonic", "perf_counter", "process_time", "thread_time", "time_ns", "monotonic_ns",
               "perf_counter_ns", "process_time_ns", "sleep")


class SimTime(types.ModuleType):
    """Stand-in for the `time` module inside d42 modules (d42 reads no timer today; a change that adds
    a deadline or a measurement reads this one).  Each read advances simulated time by world.time_step
    seconds: 1e-6 normally, large in the 'slow machine' executions -- a result must not depend on it."""

    def __init__(self, world):
        super().__init__("time")
        self._w = world

    def _read(self):
        w = self._w
        w.time_now += w.time_step
        w.stats["time_reads"] += 1
        return w.time_now

    def time(self):
        return 1.7e9 + self._read()

    def monotonic(self):
        return self._read()

    perf_counter = process_time = thread_time = monotonic

    def time_ns(self):
        return int(self.time() * 1e9)

    def monotonic_ns(self):
        return int(self._read() * 1e9)

    perf_counter_ns = process_time_ns = monotonic_ns

    def sleep(self, secs):
        self._w.time_now += max(0.0, float(secs))

    def __getattr__(self, name):
        return getattr(_real_time, name)


class World:
    """One simulated execution's worth of nondeterminism: schedule + clock + entropy + log."""

    time_now = 0.0
    time_step = 1e-6

    MAX_DRAWS = 20000

    def __init__(self):
        self.random = SimStdRandom(self)
        self.time = SimTime(self)
        self.stats = _Counter()
        self.site_table = _Counter()      # (site, kind, selector) -> n ; cumulative over runs
        self.begin(Schedule("rnd"), 0)

    # ---- run control
    def begin(self, schedule, stream_seed, record=True):
        self.schedule = schedule
        schedule.reset()
        self.stream_seed = stream_seed
        self._stream = _real_random.Random(derive("stream", stream_seed))
        self._ent = _real_random.Random(derive("entropy", stream_seed))
        self.entropy_mode = schedule.entropy
        self.draws = 0
        self.log = [] if record else None
        self.clock = SimClockScript.from_json(schedule.clock) if schedule.clock else SimClockScript()
        self.clock.reset()
        self.entropy_reads = 0
        self.sites = []

    yield_hook = None     # set by sim.interleave.Interleaver: every draw is a possible pre-emption point

    def _next_selector(self, kind):
        if self.yield_hook is not None:
            self.yield_hook()
        i = self.draws
        if i >= self.MAX_DRAWS:
            raise DrawCapExceeded("more than %d draws in one run" % self.MAX_DRAWS)
        self.draws = i + 1
        return self.schedule.selector(i, kind)

    def _log(self, kind, args, sel, outcome):
        site = _site()
        self.site_table[(site, kind, sel)] += 1
        if self.log is not None:
            self.log.append((len(self.log), kind, _summ(args), sel, _summ(outcome), site))

    # ---- entropy
    def uuid4(self):
        self.entropy_reads += 1
        n = self.entropy_reads
        if self.entropy_mode == "zero" and n == 1:
            bits = 0
        elif self.entropy_mode == "ones" and n == 1:
            bits = (1 << 128) - 1
        else:
            bits = self._ent.getrandbits(128)
        u = _uuid_mod.UUID(int=bits, version=4)
        self.stats["uuid4_reads"] += 1
        if self.log is not None:
            self.log.append((len(self.log), "uuid4", "", self.entropy_mode, u.hex, _site()))
        return u

    entropy_mode = "rnd"


class DrawCapExceeded(Exception):
    pass


class _Counter(dict):
    def __missing__(self, k):
        return 0


def _site(depth=2):
    f = sys._getframe(depth)
    # walk out of this file and out of d42/generation/_random.py
    for _ in range(8):
        fn = f.f_code.co_filename
        if fn.endswith("world.py") or fn.endswith("_random.py"):
            f = f.f_back
            if f is None:
                return "?"
            continue
        break
    return f.f_code.co_name


# ------------------------------------------------------------------------- clock

class SimClockScript:
    """A scripted virtual UTC clock.  `script` is a list of [kind, arg] consumed one per
    read *after* the reading is taken; reads beyond the script tick by 1 ms.

    kinds: tick(us) | jump_fwd(seconds) | jump_back(seconds) | midnight (this read is the last
    microsecond of the day, the next one is the first of the next day) | usec_edge
    """

    LO = _real_datetime(2000, 1, 1)
    HI = _real_datetime(2100, 12, 31, 23, 59, 59, 999999)

    def __init__(self, start=None, script=None):
        self.start = start or _real_datetime(2024, 5, 17, 12, 0, 0)
        self.script = list(script or [])
        self.reset()

    def to_json(self):
        return {"start": self.start.isoformat(), "script": self.script}

    @classmethod
    def from_json(cls, j):
        return cls(_real_datetime.fromisoformat(j["start"]), j["script"])

    def reset(self):
        self.t = self.start
        self.i = 0
        self.reads = 0
        self.first = None
        self.last = None
        self.fired = _Counter()
        self._pending_midnight = False

    def _clamp(self, t):
        if t < self.LO:
            return self.LO
        if t > self.HI:
            return self.HI
        return t

    def read(self):
        # one scripted action precedes every reading (ticks once the script is used up)
        if self._pending_midnight:
            self._pending_midnight = False
            self.t = self._clamp(self.t + timedelta(microseconds=1))
            self.fired["midnight_rollover"] += 1
        else:
            if self.i < len(self.script):
                kind, arg = self.script[self.i]
                self.i += 1
            else:
                kind, arg = "tick", 1000
            if kind == "tick":
                self.t = self._clamp(self.t + timedelta(microseconds=arg))
            elif kind == "jump_fwd":
                self.t = self._clamp(self.t + timedelta(seconds=arg))
                self.fired["jump_forward"] += 1
            elif kind == "jump_back":
                self.t = self._clamp(self.t - timedelta(seconds=arg))
                self.fired["jump_backward"] += 1
            elif kind == "midnight":
                self.t = self.t.replace(hour=23, minute=59, second=59, microsecond=999999)
                self._pending_midnight = True
            elif kind == "usec_edge":
                self.t = self.t.replace(microsecond=999999)
                self.fired["microsecond_edge"] += 1
        self.reads += 1
        if self.first is None:
            self.first = self.t
        self.last = self.t
        return self.t

    def span_seconds(self):
        if self.first is None:
            return 0.0
        return abs((self.last - self.first).total_seconds())


def gen_clock(r):
    """Draw a clock script from PRNG r."""
    year = r.choice((2000, 2001, 2024, 2024, 2038, 2069, 2100))
    start = _real_datetime(year, r.randint(1, 12), r.randint(1, 28), r.randint(0, 23),
                           r.randint(0, 59), r.randint(0, 59), r.choice((0, 1, 999999, r.randrange(10 ** 6))))
    script = []
    for _ in range(r.randint(0, 6)):
        k = r.choice(("tick", "tick", "jump_fwd", "jump_back", "midnight", "usec_edge"))
        if k == "tick":
            arg = r.choice((0, 1, 1000, 10 ** 6))
        elif k in ("jump_fwd", "jump_back"):
            arg = r.choice((1, 3600, 86400, 86400 * 366, 86400 * 365 * 30))
        else:
            arg = 0
        script.append([k, arg])
    return SimClockScript(start, script)


def _make_clock_classes(world):
    # The stand-ins must be indistinguishable from the stdlib classes for everything except reading the
    # clock: isinstance / issubclass answer as for the real class and construction yields real objects
    # (d42 code such as `isinstance(value, datetime)` must behave as in production).
    class _AsReal(type):
        def __instancecheck__(cls, obj):
            return isinstance(obj, cls.__mro__[1])

        def __subclasscheck__(cls, sub):
            return issubclass(sub, cls.__mro__[1])

    class SimDateTime(_real_datetime, metaclass=_AsReal):
        def __new__(cls, *a, **kw):
            return _real_datetime(*a, **kw)

        @classmethod
        def utcnow(cls):
            if sys.version_info >= (3, 12):
                # faithful to the stdlib: CPython 3.12 deprecates utcnow() (matters under -W error)
                import warnings
                warnings.warn("datetime.datetime.utcnow() is deprecated and scheduled for removal in a future "
                              "version. Use timezone-aware objects to represent datetimes in UTC: "
                              "datetime.datetime.now(datetime.UTC).", DeprecationWarning, stacklevel=2)
            t = world.clock.read()
            world.stats["clock_reads"] += 1
            if world.log is not None:
                world.log.append((len(world.log), "utcnow", "", "-", t.isoformat(), _site()))
            return t          # a *base-class* datetime, as in production

        @classmethod
        def now(cls, tz=None):
            t = world.clock.read()
            world.stats["clock_reads"] += 1
            if world.log is not None:
                world.log.append((len(world.log), "now", _summ(tz), "-", t.isoformat(), _site()))
            if tz is not None:
                from datetime import timezone
                return t.replace(tzinfo=timezone.utc).astimezone(tz)
            return t

        @classmethod
        def today(cls):
            return cls.now()

    class SimDate(_real_date, metaclass=_AsReal):
        def __new__(cls, *a, **kw):
            return _real_date(*a, **kw)

        @classmethod
        def today(cls):
            t = world.clock.read()
            world.stats["clock_reads"] += 1
            d = t.date()
            if world.log is not None:
                world.log.append((len(world.log), "today", "", "-", d.isoformat(), _site()))
            return d

    return SimDateTime, SimDate


# ------------------------------------------------------------------------- install

_REAL_RANDOM_FUNCS = {}
for _n in ("seed", "random", "uniform", "randint", "choice", "randrange", "sample", "shuffle",
           "choices", "getrandbits"):
    _REAL_RANDOM_FUNCS[_n] = getattr(_real_random, _n)


def install(world, clock=True, prng=True, entropy=True, timer=True):
    """Rebind the nondeterminism seams inside every loaded d42 module.

    NB: the package attributes d42.generation._random etc. are *instances* shadowing the
    sub-modules, so modules are reached through sys.modules only.
    Returns a dict describing what was patched (for the seam-alive record).
    """
    import d42  # noqa: F401  (make sure everything is loaded)
    import d42.custom_type  # noqa: F401
    patched = []
    SimDateTime, SimDate = _make_clock_classes(world)
    for name, mod in sorted(sys.modules.items()):
        if not (name == "d42" or name.startswith("d42.")) or mod is None:
            continue
        in_generation = name.startswith("d42.generation")
        for attr, val in list(vars(mod).items()):
            if prng:
                if val is _real_random:
                    setattr(mod, attr, world.random)
                    patched.append("%s.%s=random-module" % (name, attr))
                    continue
                hit = False
                for fn_name, fn in _REAL_RANDOM_FUNCS.items():
                    if val is fn or (getattr(val, "__self__", None) is _real_random._inst
                                     and getattr(val, "__name__", None) == fn_name):
                        setattr(mod, attr, getattr(world.random, fn_name))
                        patched.append("%s.%s=random.%s" % (name, attr, fn_name))
                        hit = True
                        break
                if hit:
                    continue
            if in_generation and clock:
                if val is _real_datetime:
                    setattr(mod, attr, SimDateTime)
                    patched.append("%s.%s=datetime" % (name, attr))
                    continue
                if val is _real_date:
                    setattr(mod, attr, SimDate)
                    patched.append("%s.%s=date" % (name, attr))
                    continue
            if timer:
                # any d42 module that starts to read the time module reads the simulated one: every
                # deadline in the system must read the simulated clock
                if val is _real_time:
                    setattr(mod, attr, world.time)
                    patched.append("%s.%s=time-module" % (name, attr))
                    continue
                tn = getattr(val, "__name__", None)
                if tn in _TIME_FUNCS and val is getattr(_real_time, tn, None):
                    setattr(mod, attr, getattr(world.time, tn))
                    patched.append("%s.%s=time.%s" % (name, attr, tn))
                    continue
            if in_generation and entropy:
                if val is _uuid_mod.uuid4:
                    setattr(mod, attr, world.uuid4)
                    patched.append("%s.%s=uuid4" % (name, attr))
                    continue
    return patched


# ------------------------------------------------------------------------- ambient process state

class ambient_shift:
    """Process-wide settings that an application may legitimately have changed before it calls d42, and
    that no d42 result may depend on: the local time zone (TZ + tzset), the thread's decimal context
    (precision 3, Inexact / Rounded trapped), the float repr-independent locale-free settings are left
    alone.  Used as one more schedule dimension: the same operations are executed once in the worker's
    own ambient state and once inside this shift."""

    def __init__(self, tz="Pacific/Kiritimati"):
        self.tz = tz

    def __enter__(self):
        import decimal
        import os
        import time
        self._tz = os.environ.get("TZ")
        os.environ["TZ"] = self.tz
        time.tzset()
        self._ctx = decimal.getcontext().copy()
        c = decimal.getcontext()
        c.prec = 3
        c.traps[decimal.Inexact] = True
        c.traps[decimal.Rounded] = True
        return self

    def __exit__(self, *a):
        import decimal
        import os
        import time
        decimal.setcontext(self._ctx)
        if self._tz is None:
            os.environ.pop("TZ", None)
        else:
            os.environ["TZ"] = self._tz
        time.tzset()
        return False
