"""Fixed case counts per tier (counts, not wall budgets: one seed explores the same cases)."""

TIERS = {
    "C07": {
        "quick": {"cases": 3000, "min_steps": 20, "max_steps": 60, "wall": 900, "echo": 160, "shrink_s": 25},
        "thorough": {"cases": 150000, "min_steps": 20, "max_steps": 80, "wall": 7200, "echo": 1500, "hash_echo": 4000, "shrink_s": 40, "rerun_every": 2},
    },
    "C17": {
        "quick": {"cases": 24000, "configs": 4, "wall": 600},
        "thorough": {"cases": 200000, "configs": 16, "wall": 7200, "fresh_sample": 480},
    },
    "C04": {
        "quick": {"cases": 120000, "m_seeded": 2, "flip_n": 8, "wall": 600, "echo": 48},
        "thorough": {"cases": 1500000, "m_seeded": 10, "flip_n": 24, "wall": 7200, "echo": 256},
    },
    "C01": {
        "quick": {"cases": 30000, "m_seeded": 3, "flip_n": 12, "wall": 600, "echo": 48},
        "thorough": {"cases": 600000, "m_seeded": 12, "flip_n": 24, "wall": 7200, "echo": 256},
    },
    "C09": {
        "quick": {"cases": 9000, "m_seeded": 3, "flip_n": 16, "wall": 600, "echo": 96, "max_budget": 1024},
        "thorough": {"cases": 200000, "m_seeded": 8, "flip_n": 24, "wall": 7200, "echo": 256, "max_budget": 1024},
    },
}

REAL = ["d42 (whole package, unmodified, imported from the working tree)", "th.PathHolder", "niltype",
        "stdlib re / re._parser (reference semantics for regex)"]
STUB = ["stdlib `random` module as seen from d42 modules (SimStdRandom, stdlib-faithful outcomes)",
        "datetime.utcnow/now, date.today as seen from d42.generation (SimClock)",
        "uuid.uuid4 as seen from d42.generation (SimEntropy)"]


def _faults_c09(wstats, clock, probes, sites):
    out = {}
    for k, v in sites.items():
        site, kind, sel = k.split("|")
        if sel in ("lo", "hi", "lo1", "hi1"):
            out["forced_extreme_draw:" + sel] = out.get("forced_extreme_draw:" + sel, 0) + v
    out["unsupported_construct_spliced"] = probes.get("feat:unsup", 0)
    out["knob:open_repeat_min>max_repeat"] = probes.get("open_repeat_min>max_repeat", 0)
    return out


def _faults_c01(wstats, clock, probes, sites):
    out = _faults_c09(wstats, clock, probes, sites)
    out.pop("unsupported_construct_spliced", None)
    out.pop("knob:open_repeat_min>max_repeat", None)
    for k in ("jump_forward", "jump_backward", "midnight_rollover", "microsecond_edge"):
        out["clock:" + k] = clock.get(k, 0)
    out["entropy:uuid4_reads"] = wstats.get("uuid4_reads", 0)
    out["prng:randint_empty_range_raised"] = wstats.get("randint_empty_range", 0)
    out["prng:choice_from_empty_raised"] = wstats.get("choice_empty", 0)
    return out


def _faults_c07(wstats, clock, probes, sites):
    out = {}
    for k, v in probes.items():
        if k.startswith("fault:") or k.startswith("hook_fired:") or k.startswith("hook_reentered:") or k.startswith("raised_in:"):
            out[k] = v
    return out


META = {
    "C07": {
        "rule": "cases = seeded histories of 20-60 public operations over a shared pool of <=12 schemas and <=24 retained "
                "caller-owned containers, interleaving declarer / refiner / combiner / substitutor / validator / generator / "
                "printer / reader with the saboteur (late mutation of containers handed to d42) and the hook owner "
                "(custom-type hooks that re-enter the API or raise mid-operation). After every step all invariants are "
                "evaluated (I1 observations of all pooled schemas, I2 snapshots of all retained values, I3 re-execution of an "
                "earlier operation). evaluations = operations executed. distinct+nontrivial = distinct (sequence of op kinds, "
                "set of fault kinds fired).",
        "real_vs_stub": {"real": REAL + ["module-level visitor singletons", "d42.custom_type.CustomSchema hooks (forwarding type registered through register_type)"], "stub": STUB},
        "assumptions": [
            "mid-operation interleaving and crashes are injected only at the points the public API exposes (custom-type hooks); thread pre-emption / async exceptions are deliberately out (DESIGN 2.10)",
            "exception *types* are not judged (C10/C12), only purity: observations, argument snapshots, repeatability",
        ],
        "fault_kinds": _faults_c07,
    },
    "C17": {
        "rule": "cases = (seed k of every SeedType, sequence of 1-8 schema specs without unfixed uuid4/datetime/date); "
                "each case is executed in every interpreter configuration (exec'd interpreters with distinct "
                "PYTHONHASHSEED) and, inside each, four times: plain, repeated, with seeded non-generating public "
                "operations interleaved between the fakes, and on freshly rebuilt equal schemas; a sample is re-run "
                "late in the process (warm). evaluations = set_seed+fake sequences executed. distinct+nontrivial = "
                "distinct (tuple of schema shape signatures, seed type).",
        "real_vs_stub": {"real": REAL + ["stdlib random (Mersenne Twister) - it is part of what must be reproducible"],
                         "stub": ["nothing is stubbed in this check; the simulator owns PYTHONHASHSEED, process age and the interleaved history"]},
        "assumptions": [
            "only CPython 3.12.1 is available: 'interpreter configurations' = hash seeds and fresh/warm processes, not versions",
            "schemas with unfixed uuid4/datetime/date are excluded, as the property states",
            "a cross-interpreter difference that disappears when every regex with a negated class is replaced by a plain str is attributed to the known finding KF-C17-1",
        ],
    },
    "C04": {
        "rule": "cases = (schema spec S, plain value v) with v = witness | partial dict of it at any depth | perturbed "
                "witness | unrelated value; R = S % v through the public operator; each R explored under draw "
                "schedules (lo, hi, alt, single flips, seeded, mixed). evaluations = substitute + fake(R) executions "
                "(each followed by the carries oracle and up to 3 single-position perturbation probes). distinct+"
                "nontrivial = distinct (shape of S, kind of v, set of (draw site, selector) fired) among cases where "
                "substitution succeeded.",
        "real_vs_stub": {"real": REAL, "stub": STUB},
        "assumptions": [
            "cases where S % v raises are counted and ignored (C04 speaks only of success)",
            "a fake(R) failure whose culprit node occurs unchanged in S is attributed to S (C01), not to substitution",
            "perturbations are far outside validator tolerances (other kind, |delta| >= 1 + |x|, other length / key set)",
        ],
        "fault_kinds": _faults_c01,
    },
    "C01": {
        "rule": "cases = hereditarily satisfiable schema specs (witness-first, swarm knobs, 13 types + alias, "
                "+ | % make_required) x generation route x draw schedules (lo, hi, alt, single flips, seeded, "
                "mixed) x clock/entropy scripts. evaluations = fake()+validate() executions. distinct+nontrivial "
                "= distinct (schema shape signature, set of (draw site, selector) pairs fired) with >=1 draw consumed.",
        "real_vs_stub": {"real": REAL, "stub": STUB},
        "assumptions": [
            "satisfiability of every counted schema is verified with the real validator (witness or a generated value accepted)",
            "SimStdRandom returns only outcomes the stdlib random module can return for the same arguments",
            "virtual clock stays within 2000-01-01..2100-12-31; float bounds are finite and |x| <= 1e20",
            "private generator constants (INT_MAX, STR_LEN_MAX...) are not varied; public knobs are",
        ],
        "fault_kinds": _faults_c01,
    },
    "C09": {
        "rule": "cases = regex programs drawn from the supported-construct grammar (+ spliced unsupported "
                "constructs) x RegexGenerator knobs x draw schedules (lo, hi, alt, every single flip of the "
                "first N draws, seeded, mixed). evaluations = generator executions. A case is counted "
                "distinct+nontrivial per distinct (pattern text, set of (draw site, selector) pairs that "
                "actually fired) - executions that consumed no draw at all add nothing new after the first.",
        "real_vs_stub": {"real": REAL, "stub": STUB},
        "assumptions": [
            "re.fullmatch of CPython 3.12 is the reference for 'matches the entire pattern'",
            "SimStdRandom returns only outcomes the stdlib random module can return for the same arguments",
            "letters/digits/word alphabets are ASCII (a user-supplied alphabet that contradicts \\w/\\d is misconfiguration)",
            "patterns whose negated class excludes the whole alphabet are not generated (nothing can be generated)",
        ],
        "fault_kinds": _faults_c09,
    },
}
