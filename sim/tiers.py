"""Fixed case counts per tier (counts, not wall budgets: one seed explores the same cases)."""

TIERS = {
    "C09": {
        "quick": {"cases": 6000, "m_seeded": 3, "flip_n": 16, "wall": 600, "echo": 64},
        "thorough": {"cases": 250000, "m_seeded": 12, "flip_n": 32, "wall": 7200, "echo": 256},
    },
}

REAL = ["d42 (whole package, unmodified, imported from the working tree)", "th.PathHolder", "niltype",
        "stdlib re / re._parser (reference semantics for regex)"]
STUB = ["stdlib `random` module as seen from d42 modules (SimStdRandom, stdlib-faithful outcomes)",
        "datetime.utcnow/now, date.today as seen from d42.generation (SimClock)",
        "uuid.uuid4 as seen from d42.generation (SimEntropy)"]


def _faults_c09(wstats, clock, probes, sites):
    out = {}
    for k, v in sites.items():
        site, kind, sel = k.split("|")
        if sel in ("lo", "hi", "lo1", "hi1"):
            out["forced_extreme_draw:" + sel] = out.get("forced_extreme_draw:" + sel, 0) + v
    out["unsupported_construct_spliced"] = probes.get("feat:unsup", 0)
    out["knob:open_repeat_min>max_repeat"] = probes.get("open_repeat_min>max_repeat", 0)
    return out


META = {
    "C09": {
        "rule": "cases = regex programs drawn from the supported-construct grammar (+ spliced unsupported "
                "constructs) x RegexGenerator knobs x draw schedules (lo, hi, alt, every single flip of the "
                "first N draws, seeded, mixed). evaluations = generator executions. A case is counted "
                "distinct+nontrivial per distinct (pattern text, set of (draw site, selector) pairs that "
                "actually fired) - executions that consumed no draw at all add nothing new after the first.",
        "real_vs_stub": {"real": REAL, "stub": STUB},
        "assumptions": [
            "re.fullmatch of CPython 3.12 is the reference for 'matches the entire pattern'",
            "SimStdRandom returns only outcomes the stdlib random module can return for the same arguments",
            "letters/digits/word alphabets are ASCII (a user-supplied alphabet that contradicts \\w/\\d is misconfiguration)",
            "patterns whose negated class excludes the whole alphabet are not generated (nothing can be generated)",
        ],
        "fault_kinds": _faults_c09,
    },
}
