"""Deterministic interleaving of logical callers on real threads (baton passing).

Exactly one thread is runnable at any time.  The only pre-emption points are the world's yield points
-- every PRNG draw that d42 makes goes through World._next_selector, which calls world.yield_hook --
and at each of them a PRNG seeded from the run's switch seed decides whether the baton passes to the next
caller that has not finished.  One switch seed = one exactly repeatable interleaving; no sleep, no
timing, no free-running thread.  Used where two callers share one d42 object (the module-level
generator behind fake(), one RegexGenerator / Generator instance).
"""
import random as _real_random
import threading


class InterleaveStuck(Exception):
    pass


class Interleaver:
    WAIT = 60.0      # seconds; only ever reached if the harness itself is broken

    def __init__(self, world, switch_seed, p_switch=0.4):
        self.world = world
        self.rng = _real_random.Random(switch_seed)
        self.p = p_switch
        self.switches = 0

    def run(self, fns):
        """Run the callables to completion, interleaved at yield points.  -> list of ("ok", value) |
        ("raise", exception) in the order of `fns`."""
        n = len(fns)
        sems = [threading.Semaphore(0) for _ in range(n)]
        done = [False] * n
        out = [None] * n
        main = threading.Semaphore(0)
        state = {"cur": 0}
        ident = {}

        def next_alive(i):
            for d in range(1, n + 1):
                j = (i + d) % n
                if not done[j]:
                    return j
            return None

        def hook():
            i = ident.get(threading.get_ident())
            if i is None or state["cur"] != i:
                return                      # a draw from outside the managed callers
            if self.rng.random() >= self.p:
                return
            j = next_alive(i)
            if j is None or j == i:
                return
            self.switches += 1
            state["cur"] = j
            sems[j].release()
            if not sems[i].acquire(timeout=self.WAIT):
                raise InterleaveStuck("caller %d never got the baton back" % i)

        def body(i):
            ident[threading.get_ident()] = i
            if not sems[i].acquire(timeout=self.WAIT):
                return
            try:
                out[i] = ("ok", fns[i]())
            except BaseException as e:       # noqa: B902 - the outcome is reported, not swallowed
                out[i] = ("raise", e)
            done[i] = True
            j = next_alive(i)
            if j is None:
                main.release()
            else:
                state["cur"] = j
                sems[j].release()

        threads = [threading.Thread(target=body, args=(i,), daemon=True) for i in range(n)]
        prev = getattr(self.world, "yield_hook", None)
        self.world.yield_hook = hook
        try:
            for t in threads:
                t.start()
            state["cur"] = 0
            sems[0].release()
            if not main.acquire(timeout=self.WAIT * 2):
                raise InterleaveStuck("interleaved callers did not finish")
            for t in threads:
                t.join(timeout=self.WAIT)
        finally:
            self.world.yield_hook = prev
        return out
