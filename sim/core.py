"""Shared primitives: seed derivation, canonical encoding, digests.

Nothing here may read a clock, the global `random` state, `hash()` or set order.
"""
import hashlib
import json
import math
import random as _stdrandom
from datetime import date, datetime
from uuid import UUID


def derive(*labels):
    """One integer from a tuple of labels; stable across processes and hash seeds."""
    h = hashlib.sha256(repr(labels).encode("utf-8", "backslashreplace")).digest()
    return int.from_bytes(h[:8], "big")


def rng(*labels):
    return _stdrandom.Random(derive(*labels))


def digest(obj):
    return hashlib.sha256(canon(obj).encode("utf-8", "backslashreplace")).hexdigest()[:16]


def fast_digest(obj):
    """For plain str/int/float/tuple/list/None structures only (repr is canonical for them)."""
    return hashlib.sha256(repr(obj).encode("utf-8", "backslashreplace")).hexdigest()[:16]


def canon(v):
    """Type-exact, NaN-safe canonical text of a plain value (no dependence on set order)."""
    if v is None:
        return "N"
    if v is True:
        return "T"
    if v is False:
        return "F"
    if v is Ellipsis:
        return "..."
    t = type(v)
    if t is int:
        return "i%d" % v
    if t is float:
        if v != v:
            return "fnan"
        return "f" + v.hex()
    if t is str:
        return "s" + json.dumps(v)
    if t is bytes:
        return "b" + v.hex()
    if t is bytearray:
        return "B" + bytes(v).hex()
    if t is list:
        return "[" + ",".join(canon(x) for x in v) + "]"
    if t is tuple:
        return "(" + ",".join(canon(x) for x in v) + ")"
    if t is dict:
        return "{" + ",".join(canon(k) + ":" + canon(x) for k, x in v.items()) + "}"
    if t is UUID:
        return "u" + v.hex
    if t is datetime:
        return "dt" + v.isoformat() + ("~fold" if v.fold else "") + ("~" + v.tzinfo.key if getattr(v.tzinfo, "key", None) else "")
    if t is date:
        return "d" + v.isoformat()
    if isinstance(v, (set, frozenset)):
        return "S{" + ",".join(sorted(canon(x) for x in v)) + "}"
    if isinstance(v, dict):
        return t.__name__ + "{" + ",".join(canon(k) + ":" + canon(x) for k, x in v.items()) + "}"
    if isinstance(v, list):
        return t.__name__ + "[" + ",".join(canon(x) for x in v) + "]"
    return "?%s:%s" % (t.__name__, _safe_repr(v))


def _safe_repr(v):
    try:
        r = repr(v)
    except BaseException as e:  # noqa
        r = "<repr raised %s>" % type(e).__name__
    # strip addresses
    import re
    return re.sub(r"0x[0-9a-fA-F]+", "0x", r)[:200]


# ---------------------------------------------------------------- value <-> JSON

def enc(v):
    """Plain value -> JSON-able (tagged) form; exact round trip through dec()."""
    if v is None or v is True or v is False:
        return v
    t = type(v)
    if t is int:
        if -(2 ** 53) < v < 2 ** 53:
            return v
        return {"$int": str(v)}
    if t is float:
        if v != v or v in (math.inf, -math.inf):
            return {"$float": repr(v)}
        return {"$float": v.hex()}
    if t is str:
        try:
            v.encode("utf-8")
            return v
        except UnicodeEncodeError:
            return {"$str": [ord(c) for c in v]}
    if t is bytes:
        return {"$bytes": v.hex()}
    if t is bytearray:
        return {"$bytearray": bytes(v).hex()}
    if t is list:
        return [enc(x) for x in v]
    if t is tuple:
        return {"$tuple": [enc(x) for x in v]}
    if t is dict:
        return {"$dict": [[enc(k), enc(x)] for k, x in v.items()]}
    if t.__name__ == "defaultdict" and isinstance(v, dict):
        return {"$defaultdict": [[enc(k), enc(x)] for k, x in v.items()]}
    if t.__name__ == "OrderedDict" and isinstance(v, dict):
        return {"$ordereddict": [[enc(k), enc(x)] for k, x in v.items()]}
    if t is UUID:
        return {"$uuid": v.hex}
    if t is datetime:
        if getattr(v.tzinfo, "key", None):       # a zoneinfo zone: keep its identity (DST rules), not just the offset
            return {"$dtz": v.replace(tzinfo=None).isoformat(), "zone": v.tzinfo.key, "fold": v.fold}
        return {"$dt": v.isoformat(), "fold": 1} if v.fold else {"$dt": v.isoformat()}
    if t is date:
        return {"$date": v.isoformat()}
    if v is Ellipsis:
        return {"$ellipsis": 1}
    if t is set:
        return {"$set": sorted((enc(x) for x in v), key=repr)}
    if t is frozenset:
        return {"$frozenset": sorted((enc(x) for x in v), key=repr)}
    return {"$repr": _safe_repr(v)}


def _none():
    return None


def dec(j):
    if j is None or j is True or j is False:
        return j
    t = type(j)
    if t is int or t is str:
        return j
    if t is float:
        return j
    if t is list:
        return [dec(x) for x in j]
    if t is dict:
        if "$dtz" in j:
            from zoneinfo import ZoneInfo
            return datetime.fromisoformat(j["$dtz"]).replace(tzinfo=ZoneInfo(j["zone"]), fold=j.get("fold", 0))
        if "$dt" in j and len(j) == 2:
            return datetime.fromisoformat(j["$dt"]).replace(fold=j.get("fold", 0))
        (k, x), = j.items()
        if k == "$int":
            return int(x)
        if k == "$float":
            if x in ("nan", "inf", "-inf"):
                return float(x)
            return float.fromhex(x)
        if k == "$str":
            return "".join(chr(c) for c in x)
        if k == "$bytes":
            return bytes.fromhex(x)
        if k == "$bytearray":
            return bytearray(bytes.fromhex(x))
        if k == "$tuple":
            return tuple(dec(y) for y in x)
        if k == "$dict":
            return {dec(a): dec(b) for a, b in x}
        if k == "$defaultdict":
            from collections import defaultdict
            d = defaultdict(int)          # a factory whose repr carries no address
            for a, b in x:
                d[dec(a)] = dec(b)
            return d
        if k == "$ordereddict":
            from collections import OrderedDict
            return OrderedDict((dec(a), dec(b)) for a, b in x)
        if k == "$uuid":
            return UUID(hex=x)
        if k == "$dt":
            return datetime.fromisoformat(x)
        if k == "$date":
            return date.fromisoformat(x)
        if k == "$ellipsis":
            return Ellipsis
        if k == "$set":
            return set(dec(y) for y in x)
        if k == "$frozenset":
            return frozenset(dec(y) for y in x)
        raise ValueError("cannot decode %r" % (j,))
    raise ValueError("cannot decode %r" % (j,))


def deep_equal(a, b):
    """Type-exact, NaN-safe structural equality."""
    return canon(a) == canon(b)
