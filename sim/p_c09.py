"""C09 — regex generation yields a full match or refuses loudly."""
import copy
import random as _real_random
import re
import signal
import string

from . import regexgram as G
from .base import BaseProp
from .base import simpler_policies as _simpler_policies
from .core import derive, digest, fast_digest
from .known import classify
from .world import DrawCapExceeded, Schedule

# legal narrowings / widenings of what \d and \w generate: re gives both their Unicode meaning, so
# Arabic-Indic or Devanagari digits and Cyrillic / accented letters are as good as ASCII ones
DIGIT_KNOBS = [None, None, None, None, "123456789", "01", "\u0660\u0661\u0662\u0663\u0669", "7\u0967\u0968"]
WORD_KNOBS = [None, None, None, None, string.ascii_lowercase, "ab_", "\u0430\u0431\u0432\u0433_", "\u00e9\u00df\u00f1z9\u0665"]
LETTER_KNOBS = [
    string.printable,                      # contains \n \r \t \x0b \x0c
    None,                                  # generator default
    None,
    string.ascii_lowercase,
    "abc",
    "ab01_ -",
    string.ascii_letters + string.digits,
    string.punctuation + " ",
    "z",
    "ab \u00e4\u00f6\u20ac\u03bb\u0436\u0660",      # letters outside ASCII, incl. a non-ASCII digit
]
MAX_REPEAT_KNOBS = [0, 1, 2, 8, 32, 32, 43, 44, 45, 64, 100]


class _TimedOut(BaseException):
    pass


class OracleDisagreement(Exception):
    pass


class PartnerCorrupted(Exception):
    """The other caller of an interleaved pair got a string that does not match *its* pattern."""


def _on_alarm(signum, frame):
    raise _TimedOut()


class _Timer:
    """Interrupts sre matching (the engine polls for signals).  Only ever used to *skip* an
    oracle question, never to decide one, so wall-clock jitter cannot create a verdict."""

    def __init__(self, seconds):
        self.seconds = seconds

    def __enter__(self):
        signal.signal(signal.SIGALRM, _on_alarm)
        signal.setitimer(signal.ITIMER_REAL, self.seconds)

    def __exit__(self, *a):
        signal.setitimer(signal.ITIMER_REAL, 0)
        return False


class Prop(BaseProp):
    id = "C09"

    def setup(self):
        from d42 import fake, schema, validate
        from d42.generation import Generator, Random, RegexGenerator
        self.d = dict(fake=fake, schema=schema, validate=validate, Generator=Generator,
                      Random=Random, RegexGenerator=RegexGenerator)

    # ------------------------------------------------------------ generation of cases
    def gen_case(self, labels, cfg):
        r = _real_random.Random(derive(*labels, "case"))
        letters = r.choice(LETTER_KNOBS)
        max_repeat = r.choice(MAX_REPEAT_KNOBS)
        route = r.choice(("regexgen", "regexgen", "generator", "fake"))
        digits = r.choice(DIGIT_KNOBS)
        word = r.choice(WORD_KNOBS)
        if route == "fake":
            letters, max_repeat, digits, word = None, 32, None, None   # the module-level generator has default knobs
        gcfg = G.Cfg(r, letters=letters or G.ASCII_LETTERS_DEFAULT, max_repeat=max_repeat,
                     depth=r.choice((1, 2, 3, 4)), budget=min(r.choice((16, 64, 64, 256, 256, 1024, 4096)), cfg.get("max_budget", 4096)),
                     p_unsup=r.choice((0.0, 0.0, 0.25, 1.0)), p_neg=r.choice((0.0, 0.25, 0.6)),
                     size=r.choice((1, 2, 3, 5)))
        gcfg.p_exhaust = r.choice((0.0, 0.0, 0.5))
        gcfg.p_empty = 0.004
        pattern_as = r.choice(("plain", "plain", "plain", "plain", "strsub", "enum"))
        for _ in range(10):
            ast = G.gen_pattern(gcfg)
            pat = G.render(ast)
            try:
                re.compile(pat)
            except (re.error, RecursionError, OverflowError):
                self.probes["pattern_rejected_by_re"] += 1
                continue
            if G.has_unsupported(ast) and (G.rep_nesting(ast) > 1 or gcfg.budget > 256):
                # only `re` can judge these; keep them where re.fullmatch cannot blow up, so that the
                # SIGALRM guard (which would make the outcome load-dependent) practically never fires
                gcfg.budget = min(gcfg.budget, 64)
                gcfg.depth = min(gcfg.depth, 2)
                self.probes["unsupported_pattern_regenerated_simpler"] += 1
                continue
            return {"ast": ast, "pattern": pat, "letters": letters, "max_repeat": max_repeat,
                    "digits": digits, "word": word, "pattern_as": pattern_as,
                    "route": route, "seed": derive(*labels, "sched"),
                    "m": cfg["m_seeded"], "flip_n": cfg["flip_n"]}
        return None

    # ------------------------------------------------------------ one execution
    @staticmethod
    def _wrap(pat, how):
        """The pattern as the caller's object: a plain str, or an instance of a str subclass whose str()
        is not its content (the `class Patterns(str, Enum)` idiom) -- d42 accepts any str instance."""
        if how == "strsub":
            class Pattern(str):
                def __str__(self):
                    return "Pattern(...)"
            return Pattern(pat)
        if how == "enum":
            import enum
            try:
                return enum.Enum("Patterns", {"MEMBER": pat}, type=str).MEMBER
            except Exception:
                return pat
        return pat

    def _generate(self, case):
        d = self.d
        pat = self._wrap(case["pattern"], case.get("pattern_as"))
        route = case["route"]
        if route == "fake":
            return d["fake"](d["schema"].str.regex(pat))
        alphabet = {}
        for name in ("letters", "digits", "word"):
            if case.get(name) is not None:
                alphabet[name] = case[name]
        alphabet = alphabet or None
        rnd = d["Random"]()
        rg = d["RegexGenerator"](rnd, alphabet=alphabet, max_repeat=case["max_repeat"])
        if route == "regexgen":
            return rg.generate(pat)
        gen = d["Generator"](rnd, rg)
        return d["schema"].str.regex(pat).__accept__(gen)

    PARTNER = "<<[xy]{4}-\\d{3}(?:ab|cd)*>>"

    def _generate_pair(self, case):
        """Two logical callers share one d42 generator (the module-level one behind fake(), or one
        RegexGenerator / Generator instance): caller 0 generates the case's pattern, caller 1 a fixed
        partner pattern, interleaved at draw granularity by sim.interleave (one switch seed = one
        interleaving).  Returns caller 0's string; the partner's is checked here."""
        from .interleave import Interleaver
        d = self.d
        pat = self._wrap(case["pattern"], case.get("pattern_as"))
        route = case["route"]
        if route == "fake":
            f0 = lambda: d["fake"](d["schema"].str.regex(pat))                 # noqa: E731
            f1 = lambda: d["fake"](d["schema"].str.regex(self.PARTNER))        # noqa: E731
        else:
            alphabet = {n: case[n] for n in ("letters", "digits", "word") if case.get(n) is not None} or None
            rnd = d["Random"]()
            rg = d["RegexGenerator"](rnd, alphabet=alphabet, max_repeat=case["max_repeat"])
            if route == "regexgen":
                f0 = lambda: rg.generate(pat)                                  # noqa: E731
                f1 = lambda: rg.generate(self.PARTNER)                         # noqa: E731
            else:
                gen = d["Generator"](rnd, rg)
                f0 = lambda: d["schema"].str.regex(pat).__accept__(gen)        # noqa: E731
                f1 = lambda: d["schema"].str.regex(self.PARTNER).__accept__(gen)   # noqa: E731
        il = Interleaver(self.world, case["pair"]["switch_seed"])
        (k0, r0), (k1, r1) = il.run([f0, f1])
        self.probes["pair:baton_switches"] += il.switches
        if k1 == "ok" and not (isinstance(r1, str) and re.fullmatch(self.PARTNER, r1)):
            raise PartnerCorrupted(repr(r1)[:120])
        if k1 == "raise" and not isinstance(r1, DrawCapExceeded) and not G.has_unsupported(case["ast"]):
            raise PartnerCorrupted("partner raised %s: %s" % (type(r1).__name__, r1))
        if k0 == "raise":
            raise r0
        return r0

    def execute(self, case, schedule, record=True):
        """-> (outcome_class, detail, draws, event_digest)"""
        w = self.world
        w.begin(schedule, derive(case["seed"], schedule.seed), record=record)
        unsup = G.has_unsupported(case["ast"])
        pat = case["pattern"]
        try:
            s = self._generate_pair(case) if case.get("pair") else self._generate(case)
        except PartnerCorrupted as e:
            return "pair:partner_corrupted", str(e), w.draws, None
        except DrawCapExceeded:
            self.probes["skipped:draw_cap"] += 1
            return "ok_skipped_draw_cap", "", w.draws, None
        except Exception as e:
            if unsup:
                return "ok_refused", type(e).__name__, w.draws, None
            return "raise:" + type(e).__name__, "%s: %s" % (type(e).__name__, e), w.draws, None
        if not isinstance(s, str):
            return "nonstr", repr(s)[:80], w.draws, None
        verdict = self.fullmatch_oracle(case, s, unsup)
        if verdict is None:
            self.probes["oracle_undecided_re_timeout"] += 1
            return "ok_undecided", "", w.draws, s
        if not verdict:
            return ("nomatch_unsupported" if unsup else "nomatch"), repr(s)[:200], w.draws, s
        # its own validation accepts it (re.search inside d42; guarded against ReDoS time-outs)
        try:
            with _Timer(0.05):
                res = self.d["validate"](self.d["schema"].str.regex(pat), s)
        except _TimedOut:
            self.probes["validate_timeout_skipped"] += 1
            return ("ok_match_unsupported" if unsup else "ok"), "", w.draws, s
        if res.has_errors():
            return "validate_rejects", repr(s)[:200], w.draws, s
        return ("ok_match_unsupported" if unsup else "ok"), "", w.draws, s

    def fullmatch_oracle(self, case, s, unsup):
        """True / False / None (undecided).  Supported patterns: polynomial reference matcher over
        the AST, cross-checked against re.fullmatch whenever re answers within the time limit."""
        if unsup and getattr(self, "_re_hard", False):
            # `re` already needed more than the time limit on this pattern once: do not wait again for
            # each of its executions (a pattern on which sre backtracks for seconds costs minutes otherwise)
            self.probes["re_fullmatch_skipped_after_timeout"] += 1
            return None
        try:
            with _Timer(2.0 if unsup else 0.05):
                re_ans = re.fullmatch(case["pattern"], s) is not None
        except _TimedOut:
            re_ans = None
            self.probes["re_fullmatch_timeout"] += 1
            if unsup:
                self._re_hard = True
        if unsup:
            return re_ans
        ref = G.ast_fullmatch(case["ast"], s)
        if re_ans is not None and re_ans != ref:
            raise OracleDisagreement("re=%s ref=%s pattern=%r s=%r" % (re_ans, ref, case["pattern"], s))
        return ref

    # ------------------------------------------------------------ a whole case
    def run_case(self, case):
        self._re_hard = False
        fs = G.features(case["ast"])
        violations = []
        keys = set()
        digests = []
        n_exec = [0]
        neg = "class_neg" in fs
        sample = {}

        def run(schedule):
            oc, detail, draws, s = self.execute(case, schedule)
            n_exec[0] += 1
            self.probes["outcome:" + oc.split(":")[0]] += 1
            log = self.world.log
            sites = tuple(sorted(set((e[5], e[3]) for e in log)))
            keys.add(derive(case["pattern"], sites) & 0xFFFFFFFFFFFF)
            # (an undecided oracle question is a question of wall-clock time: it never enters the digest)
            oc_d = "ok_match_unsupported" if oc == "ok_undecided" else oc
            digests.append(fast_digest([log, None if neg else oc_d, None if neg else s]))   # negated classes: KF-C17-1 makes value and verdict hash-seed dependent
            if not sample:
                sample.update({"pattern": case["pattern"], "max_repeat": case["max_repeat"],
                               "letters": case["letters"], "route": case["route"],
                               "schedule": schedule.to_json(), "outcome": oc,
                               "generated": s, "draws": draws})
            if oc.startswith("ok"):
                return draws
            violations.append(self._mk(case, schedule, oc, detail, s, digests[-1]))
            return draws

        self.schedule_plan(run, case["seed"], case["m"], case["flip_n"])
        # two callers sharing the generator, interleaved at draw points (2 interleavings per case)
        solo = case
        for j in range(case.get("pairs", 2)):
            case = dict(solo, pair={"switch_seed": derive(solo["seed"], "pair", j)})
            run(Schedule("rnd" if j else "mix", seed=derive(solo["seed"], "pairsched", j)))
            self.probes["pair:executions"] += 1
        case = solo
        self._case_probes(case, fs)
        return {"executions": n_exec[0], "violations": violations, "keys": keys,
                "digest": fast_digest(digests), "sample": sample}

    def _case_probes(self, case, fs):
        p = self.probes
        for f in fs:
            p["feat:" + f] += 1
        mr = case["max_repeat"]

        def walk(n):
            k = n["k"]
            if k == "rep":
                if n["max"] is None and n["min"] > mr:
                    p["open_repeat_min>max_repeat"] += 1
                if n["max"] in (43, 44) and mr > n["max"]:
                    p["repeat_max_equals_opcode_number"] += 1
                walk(n["body"])
            elif k == "seq":
                for i in n["items"]:
                    walk(i)
            elif k == "alt":
                if any(_has_unsup(b) for b in n["branches"]) and not all(_has_unsup(b) for b in n["branches"]):
                    p["unsupported_in_some_branch_only"] += 1
                for b in n["branches"]:
                    walk(b)
            elif k == "group":
                walk(n["body"])
            elif k == "class":
                if n["neg"] and any(i["k"] == "cat" for i in n["items"]):
                    p["negated_class_with_category"] += 1
        walk(case["ast"]["body"])

    # ------------------------------------------------------------ shrink / replay
    def check_single(self, case, schedule_json, sig_id):
        sched = Schedule.from_json(schedule_json)
        fs = G.features(case["ast"])
        oc, detail, draws, s = self.execute(case, sched)
        if oc.startswith("ok"):
            return None
        neg = "class_neg" in fs
        v = self._mk(case, sched, oc, detail, s, fast_digest([self.world.log, None if neg else oc, None if neg else s]))
        if sig_id is not None and v["sig_id"] != sig_id:
            return None
        if getattr(self, "_kf_target", "__any__") != "__any__" and v["kf"] != self._kf_target:
            return None
        return v

    def minimise(self, v, budget_s=15, max_exec=2000):
        self._kf_target = v.get("kf")
        try:
            return super().minimise(v, budget_s, max_exec)
        finally:
            self._kf_target = "__any__"

    def _mk(self, case, schedule, oc, detail, s, event_digest):
        fs = list(G.features(case["ast"]))
        letters = case["letters"] or G.ASCII_LETTERS_DEFAULT
        if case.get("digits") is not None:
            fs.append("knob:digits")
        if case.get("word") is not None:
            fs.append("knob:word")
        if "\n" in letters:
            fs.append("knob:letters_has_newline")
        if G.negclass_exhausts(case["ast"], letters):
            fs.append("negclass_exhausts_letters")
        if isinstance(s, str) and "\n" in s:
            fs.append("generated_has_newline")
        sig = {"property": "C09", "outcome": oc, "supported": "unsup" not in fs}
        if case.get("pair"):
            sig["interleaved_callers"] = 2
            fs.append("pair")
        v = self.make_violation("C09", sig, case, schedule, detail, {"features": sorted(fs), "event_digest": event_digest})
        v["kf"] = classify(v, self.args.get("known", []))
        return v

    def shrink_candidates(self, v):
        case, sched = v["case"], v["schedule"]
        # 1. simpler schedules
        for pol in _simpler_policies(sched):
            yield case, {"policy": pol, "seed": sched["seed"], "p": 0.3, "overrides": {}, "sites": {}}
        if sched["overrides"]:
            for k in list(sched["overrides"]):
                o = dict(sched["overrides"])
                del o[k]
                yield case, dict(sched, overrides=o)
        # 2. knobs to defaults
        if case["route"] != "regexgen":
            yield dict(case, route="regexgen"), sched
        if case["letters"] is not None:
            yield dict(case, letters=None), sched
        if case.get("digits") is not None:
            yield dict(case, digits=None), sched
        if case.get("word") is not None:
            yield dict(case, word=None), sched
        if case["max_repeat"] != 32:
            yield dict(case, max_repeat=32), sched
        if case.get("pattern_as", "plain") != "plain":
            yield dict(case, pattern_as="plain"), sched
        # 3. pattern surgery
        for ast in G.shrink_candidates(case["ast"]):
            pat = G.render(ast)
            try:
                re.compile(pat)
            except Exception:
                continue
            if len(pat) >= len(case["pattern"]) and ast == case["ast"]:
                continue
            c = dict(case, ast=copy.deepcopy(ast), pattern=pat)
            yield c, sched
            if sched["policy"] not in ("lo", "hi") or sched["overrides"]:
                continue


def _has_unsup(n):
    k = n["k"]
    if k == "unsup":
        return True
    if k == "seq":
        return any(_has_unsup(i) for i in n["items"])
    if k == "alt":
        return any(_has_unsup(b) for b in n["branches"])
    if k in ("group", "rep"):
        return _has_unsup(n["body"])
    return False
