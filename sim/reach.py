"""Reach expectations: which probes / fault kinds every run of a check is expected to hit.

`reach_expect.json` (committed, never written at run time) lists, per property, the probe and fault-kind
names that both reference quick runs (VERIF_SEED 0 and 1) hit at least MIN_HITS times (hits come in bunches of up to ~50 per case, so a low bar would list
probes that a single case carries).  Every run reports
in its evidence which of them it did not hit: a name stuck at zero after a workload change means the
workload no longer reaches that condition.  A gap is reported, never turned into a VIOLATION: it is a
statement about the harness, not about d42.
"""
import json
import os

HERE = os.path.dirname(os.path.dirname(os.path.abspath(__file__)))
PATH = os.path.join(HERE, "reach_expect.json")
MIN_HITS = 200


def flatten(cov):
    out = {}
    for group in ("probes", "fault_kinds_fired", "clock"):
        for k, v in (cov.get(group) or {}).items():
            if isinstance(v, (int, float)):
                out["%s/%s" % (group, k)] = v
    return out


def report(pid, cov):
    try:
        want = json.load(open(PATH)).get(pid, [])
    except Exception:
        return {"expected": 0, "not_reached": [], "note": "reach_expect.json missing"}
    got = flatten(cov)
    missing = sorted(k for k in want if not got.get(k))
    return {"expected": len(want), "reached": len(want) - len(missing), "not_reached": missing}
