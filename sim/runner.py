"""Parent process: shards cases over exec'd workers, merges, classifies, writes evidence."""
import concurrent.futures as cf
import glob
import hashlib
import json
import os
import subprocess
import sys
import time

HERE = os.path.dirname(os.path.abspath(__file__))
VERIF = os.path.dirname(HERE)
PY = os.environ.get("VERIF_PYTHON", "/venv/bin/python")
WORKER = os.path.join(HERE, "worker.py")


def out_dir():
    """Where evidence and replay files go (VERIF_OUT redirects them for mutant/self-test runs)."""
    return os.environ.get("VERIF_OUT", VERIF)

from .core import derive  # noqa: E402
from .tiers import TIERS, META  # noqa: E402


def fast_digest_cases(case_digests):
    """One digest for the whole run: independent of worker count and of which worker ran which case."""
    h = hashlib.sha256()
    for k in sorted(case_digests):
        h.update(("%d:%s;" % (k, case_digests[k])).encode())
    return h.hexdigest()[:16]


def d42_src():
    return os.environ.get("D42_SRC", "/repo")


def src_digest():
    h = hashlib.sha256()
    root = os.path.join(d42_src(), "d42")
    for p in sorted(glob.glob(os.path.join(root, "**", "*.py"), recursive=True)):
        h.update(os.path.relpath(p, root).encode())
        with open(p, "rb") as f:
            h.update(f.read())
    return h.hexdigest()[:16]


def hash_seeds(seed, n):
    fixed = [0, 1, 2 ** 32 - 1, 42]
    out = []
    for i in range(n):
        if i < len(fixed):
            out.append(fixed[i])
        else:
            out.append(derive(seed, "hashseed", i) % (2 ** 32))
    return out


def parse_config(cfg):
    """An interpreter configuration: "<PYTHONHASHSEED>[:flag[+flag]]" with flags
    O (python -O), malloc_debug (PYTHONMALLOC=debug), dev (-X dev), Wdep (-W error: every warning category escalated),
    preload (import d42's sub-packages in another order before d42 itself)."""
    s = str(cfg)
    h, _, fl = s.partition(":")
    return h, [f for f in fl.split("+") if f]


def interpreter_cmd_env(cfg):
    h, flags = parse_config(cfg)
    env = dict(os.environ)
    env["PYTHONHASHSEED"] = h
    cmd = [PY, "-u", "-X", "faulthandler"]
    if "O" in flags:
        cmd.append("-O")
    if "dev" in flags:
        cmd += ["-X", "dev"]
    if "Wdep" in flags:
        cmd += ["-W", "error"]       # every warning category is an error: what `python -W error` / pytest's filterwarnings = error users run with
    if "malloc_debug" in flags:
        env["PYTHONMALLOC"] = "debug"
    if "preload" in flags:
        env["VERIF_PRELOAD"] = "d42.representation,d42.custom_type,d42.generation,d42.validation"
    else:
        env.pop("VERIF_PRELOAD", None)
    return cmd, env


def spawn(args, hashseed, wall):
    cmd, env = interpreter_cmd_env(hashseed)
    env["PYTHONDONTWRITEBYTECODE"] = "1"
    env["D42_SRC"] = d42_src()
    env["D42_VERIF"] = "1"
    env.pop("PYTHONPATH", None)
    args = dict(args, wall_limit=wall)
    return subprocess.Popen(cmd + [WORKER, json.dumps(args)],
                            stdout=subprocess.PIPE, stderr=subprocess.PIPE, env=env, cwd=VERIF)


def collect(p, wall):
    try:
        out, err = p.communicate(timeout=wall + 30)
    except subprocess.TimeoutExpired:
        p.kill()
        out, err = p.communicate()
        return [{"type": "harness_error", "error": "worker wall timeout"}], err.decode("utf-8", "replace")
    lines = []
    for ln in out.decode("utf-8", "replace").splitlines():
        ln = ln.strip()
        if not ln:
            continue
        try:
            lines.append(json.loads(ln))
        except ValueError:
            lines.append({"type": "noise", "text": ln[:300]})
    if not lines or lines[-1].get("type") != "done":
        if not any(l.get("type") == "harness_error" for l in lines):
            lines.append({"type": "harness_error",
                          "error": "worker ended without 'done' (rc=%s): %s" % (p.returncode, err.decode("utf-8", "replace")[-1500:])})
    return lines, err.decode("utf-8", "replace")


def run_workers(jobs, wall):
    """jobs: list of (args, hashseed).  Returns list of line-lists in job order."""
    procs = [spawn(a, h, wall) for a, h in jobs]
    with cf.ThreadPoolExecutor(max_workers=max(1, len(procs))) as ex:
        futs = [ex.submit(collect, p, wall) for p in procs]
        return [f.result()[0] for f in futs]


# ------------------------------------------------------------------ known findings

def load_known(pid):
    path = os.path.join(VERIF, "known_findings.json")
    if not os.path.exists(path):
        return []
    with open(path) as f:
        data = json.load(f)
    return [e for e in data.get("findings", []) if e["property"] == pid]


from .known import classify, match_known  # noqa: E402


# ------------------------------------------------------------------ main entry

def write_replay(pid, v, seed, hashseed):
    d = os.path.join(out_dir(), "replays", pid)
    os.makedirs(d, exist_ok=True)
    path = os.path.join(d, "%s.json" % v["sig_id"])
    with open(path, "w") as f:
        json.dump({"property": pid, "verif_seed": seed, "pythonhashseed": hashseed,
                   "d42_digest": src_digest(), "violation": v}, f, indent=1, default=str)
    return path


def run_sequences(pid, seed, cfg, seqs, wall, hashseed=0):
    jobs = [({"property": pid, "mode": "sequence", "seed": seed, "indices": seq, "tier_cfg": cfg}, hashseed) for seq in seqs]
    outs = []
    for lines in run_workers(jobs, wall):
        d = None
        for l in lines:
            if l.get("type") == "sequence":
                d = {int(k): v for k, v in l["digests"].items()}
        outs.append(d)
    return outs


def process_history_violation(pid, seed, cfg, idx, W, wall, pred_b=None, hashseed=0, pred_a=None, max_trials=96):
    """Case idx gave different outcomes in the sweep worker (predecessors idx-W, idx-2W, ...) and in
    the echo worker (predecessors 0..idx-1, or pred_b).  Reproduce in fresh interpreters, then shrink
    the predecessor lists; the replay file names both."""
    if pred_a is None:
        pred_a = list(range(idx % W, idx, W))
    if pred_b is None:
        pred_b = list(range(0, idx))
    a, b = run_sequences(pid, seed, cfg, [pred_a + [idx], pred_b + [idx]], wall, hashseed)
    if a is None or b is None or a.get(idx) == b.get(idx):
        return None
    # which side differs from a fresh interpreter running the history alone?
    alone, = run_sequences(pid, seed, cfg, [[idx]], wall, hashseed)
    ref = alone.get(idx) if alone else None
    side = pred_a if a.get(idx) != ref else pred_b
    # ddmin over the predecessor list; every round tests its candidates in parallel interpreters
    trials = 0
    n = 2
    while len(side) > 1 and trials < max_trials:
        size = max(1, len(side) // n)
        chunks = [side[i:i + size] for i in range(0, len(side), size)]
        cands = chunks + ([[x for c in chunks[:i] + chunks[i + 1:] for x in c] for i in range(len(chunks))] if len(chunks) > 2 else [])
        cands = [c for c in cands if 0 < len(c) < len(side)][:16]
        if not cands:
            break
        outs = run_sequences(pid, seed, cfg, [c + [idx] for c in cands], wall, hashseed)
        trials += len(cands)
        hit = None
        for c, o in zip(cands, outs):
            if o is not None and o.get(idx) != ref and (hit is None or len(c) < len(hit)):
                hit = c
        if hit is not None:
            side = hit
            n = max(2, n - 1) if len(hit) > size else 2
        elif n >= len(side):
            break
        else:
            n = min(len(side), n * 2)
    return {"property": pid, "signature": {"property": pid, "invariant": "I3:outcome_depends_on_process_history"},
            "sig_id": "ph-%d" % idx, "kind": "process_history",
            "case": {"mode": "process_history", "target": idx, "seed": seed, "tier_cfg": cfg,
                     "predecessors": side, "reference_predecessors": [], "pythonhashseed": hashseed},
            "schedule": {"policy": "-"}, "features": [],
            "detail": "history #%d gives another outcome digest after histories %s ran in the same interpreter than in a fresh interpreter" % (idx, side)}


def fresh_interpreter_minimise(pid, v, cfg, max_rounds=12):
    """ddmin over the operations of a C07 history, every candidate judged in its *own* new interpreter
    (same interpreter configuration).  The in-worker minimiser cannot shrink a violation whose cause is
    consumed the first time it shows (state kept once per process): there every candidate looks fine."""
    from .p_c07 import fix_repeats
    config = v.get("pythonhashseed", 0)
    best = v
    n = 2
    execs = 0
    for _ in range(max_rounds):
        ops = best["case"]["ops"]
        if len(ops) <= 2:
            break
        size = max(1, len(ops) // n)
        cands = []
        for start in range(0, len(ops), size):
            c = ops[:start] + ops[start + size:]
            if 0 < len(c) < len(ops):
                cands.append(fix_repeats(c, ops))
        cands = cands[:16]
        if not cands:
            break
        jobs = [({"property": pid, "mode": "replay", "tier_cfg": cfg,
                  "replay": {"violation": dict(best, case=dict(best["case"], ops=c))}}, config) for c in cands]
        res = run_workers(jobs, 120)
        execs += len(jobs)
        hit = None
        for lines in res:
            for l in lines:
                if l.get("type") == "replay" and l.get("reproduced"):
                    g = l["violation"]
                    if hit is None or len(g["case"]["ops"]) < len(hit["case"]["ops"]):
                        hit = g
        if hit is not None:
            for k in ("case_index", "pythonhashseed", "count_in_worker", "total_count", "original_case_size"):
                if k in best and k not in hit:
                    hit[k] = best[k]
            best = hit
            n = max(2, n - 1)
        elif size == 1:
            break
        else:
            n = min(len(ops), n * 2)
    best["fresh_interpreter_minimise_execs"] = execs
    best["minimised_case_size"] = len(repr(best["case"]))
    return best


def cold_start_probe(names=None):
    """C07: every operation of sim/coldstart.py as the first thing a new interpreter does after
    `from d42 import schema`, compared with the same operation once the whole package is loaded.
    -> (violations, number of interpreters run, harness errors)"""
    script = os.path.join(VERIF, "sim", "coldstart.py")
    env = dict(os.environ, PYTHONHASHSEED="0")
    env.pop("PYTHONPATH", None)

    def run(name):
        return subprocess.Popen([sys.executable, "-X", "faulthandler", script, d42_src(), name], env=env,
                                stdout=subprocess.PIPE, stderr=subprocess.PIPE, text=True)
    if names is None:
        p = run("--list")
        out, err = p.communicate(timeout=120)
        names = json.loads(out)
    procs = [(n, run(n)) for n in names]
    viol, errors, ref = [], [], None
    for n, p in procs:
        try:
            out, err = p.communicate(timeout=120)
            d = json.loads(out.strip().splitlines()[-1])
        except Exception as e:
            p.kill()
            errors.append({"type": "harness_error", "error": "cold start probe %s: %r %s" % (n, e, (err or "")[-300:] if "err" in dir() else "")})
            continue
        first, after = d["first"][1], d["after"]
        detail = None
        if first != after.get(n):
            detail = "%s as the first d42 operation of a new interpreter (after `from d42 import schema` only) gave %s, and %s once every sub-package had been imported" % (
                n, str(first)[:160], str(after.get(n))[:160])
        elif ref is not None and after != ref:
            detail = "with %s as the first operation, the later outcomes of all operations differ from those in the other interpreters" % n
        if ref is None:
            ref = after
        if detail:
            viol.append({"property": "C07", "signature": {"property": "C07", "invariant": "I3:outcome_depends_on_import_order", "component": n},
                         "sig_id": "cold-%s" % n, "kind": "cold_start", "features": [], "schedule": {"policy": "-"},
                         "case": {"mode": "cold_start", "op": n}, "detail": detail})
    return viol, len(procs), errors


def run_check(pid, tier, seed, workers=None, cases=None, quiet=False):
    if pid == "C17":
        from .c17_runner import run_check_c17
        return run_check_c17(tier, seed, workers=workers, cases=cases)
    t0 = time.time()
    cfg = dict(TIERS[pid][tier])
    if cases:
        cfg["cases"] = cases
    W = workers or cfg.get("workers", 16)
    wall = cfg.get("wall", 900)
    n = cfg["cases"]
    hs = hash_seeds(seed, W)
    if pid == "C07":
        # hash randomisation is not what C07 varies; one hash seed everywhere makes the echo worker
        # differ from the sweep workers in exactly one thing: which histories ran earlier in the process
        hs = [0] * W
    # interpreter options are one more configuration dimension: a few sweep workers run under -O
    # (asserts stripped, __debug__ false) or with the debug allocator
    hs = list(hs)
    for i, flag in ((3, "O"), (11, "O"), (7, "malloc_debug"), (13, "Wdep")):
        if i < len(hs):
            hs[i] = "%s:%s" % (hs[i], flag)
    echo_hs = 0 if pid == "C07" else 987654321
    print("VERIF_SEED=%d property=%s tier=%s cases=%d workers=%d d42=%s digest=%s" % (
        seed, pid, tier, n, W, d42_src(), src_digest()), flush=True)

    known = load_known(pid)
    jobs = []
    for w in range(W):
        jobs.append(({"property": pid, "mode": "sweep", "seed": seed, "first": w, "last": n,
                      "step": W, "tier_cfg": cfg, "shrink_s": cfg.get("shrink_s", 15),
                      "known": known}, hs[w]))
    # determinism echo: the first K cases again, in another interpreter, other hash seed
    K = min(cfg.get("echo", 48), n)
    # half of them the first cases, half spread over the whole range (other predecessors than in the sweep)
    echo_idx = sorted(set(list(range(0, (K + 1) // 2)) + [int(i * n / max(1, K // 2)) for i in range(K // 2)]))
    echo_idx = [i for i in echo_idx if i < n]
    jobs.append(({"property": pid, "mode": "sweep", "seed": seed, "first": 0, "last": 0, "indices": echo_idx,
                  "step": 1, "tier_cfg": cfg, "shrink_s": 0, "known": known}, echo_hs))
    n_extra = 0
    if pid == "C07":
        # hash echo: the same sample in an interpreter with another PYTHONHASHSEED; histories that touch
        # something legitimately hash-dependent are left out of the comparison by the worker
        hk = min(cfg.get("hash_echo", 640), n)
        hash_idx = sorted(set(echo_idx + [int(i * n / hk) for i in range(hk)]))
        chunks = [hash_idx[i::4] for i in range(4)]
        for ch in chunks:
            jobs.append(({"property": pid, "mode": "sweep", "seed": seed, "first": 0, "last": 0, "indices": ch,
                          "step": 1, "tier_cfg": cfg, "shrink_s": 0, "known": known}, 1))
        n_extra = len(chunks)
    # directed cases of the known-findings file
    directed = [e for e in known if e.get("directed")]
    if directed:
        by_hs = {}
        for e in directed:
            by_hs.setdefault(e["directed"].get("pythonhashseed", 0), []).append(e)
        for h, ents in sorted(by_hs.items(), key=lambda kv: str(kv[0])):
            jobs.append(({"property": pid, "mode": "directed", "entries": ents, "tier_cfg": cfg}, h))
    results = run_workers(jobs, wall)

    harness_errors = []
    for lines in results:
        for l in lines:
            if l.get("type") == "harness_error":
                harness_errors.append(l)
    sweep = results[:W]
    echo = results[W]
    hash_echo = [l for lines in results[W + 1:W + 1 + n_extra] for l in lines]
    directed_res = results[W + 1 + n_extra:]

    # ---- merge
    tot = {"cases": 0, "executions": 0, "discarded": 0}
    keys = set()
    probes = {}
    wstats = {}
    site_table = {}
    clock_fired = {}
    sim_seconds = 0.0
    samples = []
    case_digests = {}
    patched = None
    violations = []
    raw = []
    done_sigs = set()
    for w, lines in enumerate(sweep):
        for l in lines:
            if l.get("type") == "stats":
                for k in tot:
                    tot[k] += l[k]
                keys.update(l["keys"])
                for k, v in l["probes"].items():
                    probes[k] = probes.get(k, 0) + v
                ws = l["world"]
                for k, v in ws["stats"].items():
                    wstats[k] = wstats.get(k, 0) + v
                for k, v in ws["site_table"].items():
                    site_table[k] = site_table.get(k, 0) + v
                for k, v in ws["clock_fired"].items():
                    clock_fired[k] = clock_fired.get(k, 0) + v
                sim_seconds += ws["sim_seconds"]
                patched = ws["patched"]
                if len(samples) < 4:
                    samples.extend(l["samples"][:1])
                case_digests.update({int(k): v for k, v in l["case_digests"].items()})
            elif l.get("type") == "violation":
                v = l["v"]
                v["pythonhashseed"] = hs[w]
                violations.append(v)
                done_sigs.add((w, v["sig_id"], v.get("kf")))
            elif l.get("type") == "violation_raw":
                v = l["v"]
                v["pythonhashseed"] = hs[w]
                raw.append((w, v))

    for w, v in raw:
        if (w, v["sig_id"], v.get("kf")) not in done_sigs:
            v["unminimised"] = True
            violations.append(v)

    # ---- determinism echo
    det = {"compared": 0, "mismatches": []}
    for l in echo:
        if l.get("type") == "stats":
            for k, v in l["case_digests"].items():
                k = int(k)
                if k in case_digests:
                    det["compared"] += 1
                    if case_digests[k] != v:
                        det["mismatches"].append(k)
    history_viol = []
    if det["mismatches"] and pid == "C07":
        # C07: the outcome of a history depends on what the process executed before it
        for idx in det["mismatches"][:2]:
            v = process_history_violation(pid, seed, cfg, idx, W, wall, pred_b=[i for i in echo_idx if i < idx])
            if v is None:
                harness_errors.append({"type": "harness_error", "error": "C07 echo mismatch for case %d did not reproduce in fresh interpreters (flaky nondeterminism)" % idx})
            else:
                history_viol.append(v)
    elif det["mismatches"]:
        harness_errors.append({"type": "harness_error",
                               "error": "nondeterminism: case digests differ between interpreters for cases %s" % det["mismatches"][:10]})

    # ---- classify
    out_lines = []
    kf_seen = {}
    new_viol = []
    for lines in directed_res:
        for l in lines:
            if l.get("type") != "directed":
                continue
            ent = next(e for e in known if e["id"] == l["id"])
            if ent["status"] == "known":
                if l["fails"]:
                    kf_seen[ent["id"]] = kf_seen.get(ent["id"], 0) + 1
                else:
                    out_lines.append("NOTE: known finding %s no longer reproduces on this tree" % ent["id"])
            elif ent["status"] == "fixed":
                if l["fails"]:
                    v = l["violation"]
                    v["pythonhashseed"] = ent["directed"].get("pythonhashseed", 0)
                    v["regression_of"] = ent["id"]
                    new_viol.append(v)
    new_viol.extend(history_viol)
    # ---- C07: a sample of histories again, each alone in a new interpreter (rarest ingredients first);
    # whatever the sweep worker executed before a history must not matter
    if pid == "C07" and not any(x.get("kind") == "process_history" for x in new_viol):
        tags = {}
        for lines in sweep:
            for l in lines:
                if l.get("type") == "stats":
                    for k, ts in l.get("case_tags", {}).items():
                        for t in ts:
                            tags.setdefault(t, []).append(int(k))
        n_alone = cfg.get("alone_sample", 48)
        chosen = []
        for t in sorted(tags, key=lambda t: (len(tags[t]), t)):
            for k in sorted(tags[t])[1:4]:          # not a worker's very first histories: those had no predecessors
                if k >= W and k not in chosen and len(chosen) < (3 * n_alone) // 4:
                    chosen.append(k)
        import random as _r
        rr = _r.Random(derive(seed, "alone-sample"))
        rest = [k for k in sorted(case_digests) if k >= W and k not in chosen]
        chosen += rr.sample(rest, min(len(rest), max(0, n_alone - len(chosen))))
        n_done = 0
        for b in range(0, len(chosen), 16):
            batch = chosen[b:b + 16]
            outs = run_sequences(pid, seed, cfg, [[k] for k in batch], wall, 0)
            for k, o in zip(batch, outs):
                if o is None:
                    continue
                n_done += 1
                if o.get(k) != case_digests.get(k):
                    pv = process_history_violation(pid, seed, cfg, k, W, wall, pred_b=[])
                    if pv is not None:
                        new_viol.append(pv)
                        break
            if any(x.get("kind") == "process_history" for x in new_viol):
                break
        probes["alone_in_new_interpreter_rechecks"] = n_done
    # ---- hash echo (C07)
    hs_compared = 0
    if n_extra:
        ref_hs = {}
        for lines in sweep:
            for l in lines:
                if l.get("type") == "stats":
                    ref_hs.update({int(k): v for k, v in l.get("case_digests_hs", {}).items()})
        for l in hash_echo:
            if l.get("type") != "stats":
                continue
            for k, v in l.get("case_digests_hs", {}).items():
                k = int(k)
                if v is None or ref_hs.get(k) is None:
                    continue
                hs_compared += 1
                if v != ref_hs[k] and not any(x.get("kind") == "hash_seed" for x in new_viol):
                    a, = run_sequences(pid, seed, cfg, [[k]], wall, 0)
                    b, = run_sequences(pid, seed, cfg, [[k]], wall, 1)
                    if a and b and a.get(k) != b.get(k):
                        new_viol.append({"property": pid, "signature": {"property": pid, "invariant": "I3:outcome_depends_on_hash_seed"},
                                         "sig_id": "hs-%d" % k, "kind": "hash_seed", "features": [], "schedule": {"policy": "-"},
                                         "case": {"mode": "hash_seed", "target": k, "seed": seed, "tier_cfg": cfg, "pythonhashseeds": [0, 1]},
                                         "detail": "history #%d gives another outcome digest under PYTHONHASHSEED=1 than under PYTHONHASHSEED=0 (it touches no negated-class regex and no set value)" % k})
                    else:
                        # not the hash seed: the two interpreters also differ in what ran *before* history k
                        # (sweep worker: k-W, k-2W, ...; hash-echo worker: its own chunk) -- try that
                        pv = None
                        if not any(x.get("kind") == "process_history" for x in new_viol):
                            chunk = next((c for c in chunks if k in c), [])
                            pv = process_history_violation(pid, seed, cfg, k, W, wall, pred_b=[i for i in chunk if i < k])
                        if pv is not None:
                            new_viol.append(pv)
                        elif not any(x.get("kind") == "process_history" for x in new_viol):
                            harness_errors.append({"type": "harness_error", "error": "C07 hash-echo mismatch for case %d did not reproduce alone" % k})
        det["hash_echo_compared"] = hs_compared
    by_sig = {}
    for v in violations:
        kf = v["kf"] if "kf" in v else classify(v, known)
        if kf:
            kf_seen[kf] = kf_seen.get(kf, 0) + v.get("count_in_worker", 1)
        else:
            by_sig.setdefault(v["sig_id"], []).append(v)
    for sig_id, lst in sorted(by_sig.items()):
        rep = min(lst, key=lambda v: v.get("minimised_case_size", 10 ** 9))
        rep["total_count"] = sum(v.get("count_in_worker", 1) for v in lst)
        new_viol.append(rep)

    for ent in known:
        if ent["status"] == "known" and ent["id"] in kf_seen:
            out_lines.append("KNOWN-FINDING: property=%s %s [%s; seen %d]" % (pid, ent["what"], ent["id"], kf_seen[ent["id"]]))
    if pid == "C07":
        cv, n_cold, cerr = cold_start_probe()
        probes["cold_start_interpreters"] = n_cold
        harness_errors.extend(cerr)
        new_viol.extend(cv[:2])
        for i, v in enumerate(new_viol):
            c = v.get("case") or {}
            if c.get("mode") == "script" and len(c.get("ops", ())) > 4 and v.get("minimise_execs", 0) > 0 \
                    and v.get("minimised_case_size") == v.get("original_case_size"):
                try:
                    new_viol[i] = fresh_interpreter_minimise(pid, v, cfg)
                except Exception as e:      # shrinking is a convenience: never lose the violation over it
                    harness_errors.append({"type": "harness_error", "error": "fresh-interpreter minimise failed: %r" % (e,)})
    replay_paths = []
    for v in new_viol:
        path = write_replay(pid, v, seed, v.get("pythonhashseed", 0))
        replay_paths.append(path)
        out_lines.append("VIOLATION property=%s replay=%s" % (pid, path))
        out_lines.append("  signature=%s detail=%s" % (json.dumps(v["signature"], sort_keys=True), str(v.get("detail"))[:300]))

    wall_s = time.time() - t0
    meta = META[pid]
    ev = {
        "property_id": pid, "tier": tier, "seed": seed, "level": "exploration",
        "coverage": {
            "evaluations": tot["executions"],
            "distinct_nontrivial": len(keys),
            "rule": meta["rule"],
            "samples": samples,
            "cases": tot["cases"], "discarded_cases": tot["discarded"],
            "runs_per_hour": int(tot["executions"] / max(wall_s, 1e-9) * 3600),
            "seeds_per_hour": int(tot["cases"] / max(wall_s, 1e-9) * 3600),
            "simulated_time_covered_s": sim_seconds,
            "fault_kinds_fired": dict(meta.get("fault_kinds", lambda *_: {})(wstats, clock_fired, probes, site_table)),
            "clock": clock_fired,
            "draw_site_table": site_table,
            "probes": probes,
            "world_counters": wstats,
            "workers": W, "pythonhashseeds": hs,
            "run_digest": fast_digest_cases(case_digests),
            "determinism_selftest": {"cases_compared_across_interpreters": det["compared"],
                                      "hash_echo_cases_compared": det.get("hash_echo_compared", 0),
                                      "mismatches": len(det["mismatches"]),
                                      "other_hashseed": 987654321},
            "seams_patched": patched,
            "real_vs_stub": meta["real_vs_stub"],
            "known_findings_seen": kf_seen,
            "d42_digest": src_digest(),
            "harness_errors": [e.get("error", "")[-400:] for e in harness_errors][:5],
        },
        "assumptions": meta["assumptions"],
        "wall_s": round(wall_s, 2),
        "violations": len(new_viol),
    }
    from .reach import report as reach_report
    ev["coverage"]["reach"] = reach_report(pid, ev["coverage"])
    os.makedirs(os.path.join(out_dir(), "evidence"), exist_ok=True)
    with open(os.path.join(out_dir(), "evidence", "%s.json" % pid), "w") as f:
        json.dump(ev, f, indent=1, default=str, sort_keys=True)

    for l in out_lines:
        print(l)
    if ev["coverage"]["reach"]["not_reached"]:
        print("REACH-GAP: %d of %d expected probes not hit: %s" % (len(ev["coverage"]["reach"]["not_reached"]), ev["coverage"]["reach"]["expected"],
                                                                  ", ".join(ev["coverage"]["reach"]["not_reached"][:8])))
    print("cases=%d executions=%d distinct=%d discarded=%d wall=%.1fs violations=%d known=%s echo=%d/%d" % (
        tot["cases"], tot["executions"], len(keys), tot["discarded"], wall_s, len(new_viol),
        sorted(kf_seen), det["compared"] - len(det["mismatches"]), det["compared"]), flush=True)
    if harness_errors:
        for e in harness_errors[:3]:
            print("HARNESS-ERROR: %s" % e.get("error", "")[-1500:], file=sys.stderr)
        return 2 if not new_viol else 1
    if tot["cases"] and tot["discarded"] * 2 > tot["cases"] + tot["discarded"]:
        print("HARNESS-ERROR: more than half of the cases were discarded", file=sys.stderr)
        return 2
    return 1 if new_viol else 0


def run_replay(pid, path):
    with open(path) as f:
        rep = json.load(f)
    if pid == "C17" and rep.get("kind") == "cross_interpreter":
        from .c17_runner import run_replay_c17
        return run_replay_c17(path, rep)
    if rep["violation"].get("kind") == "hash_seed":
        c = rep["violation"]["case"]
        h0, h1 = c["pythonhashseeds"]
        a, = run_sequences(pid, c["seed"], c["tier_cfg"], [[c["target"]]], 600, h0)
        b, = run_sequences(pid, c["seed"], c["tier_cfg"], [[c["target"]]], 600, h1)
        if a and b and a.get(c["target"]) != b.get(c["target"]):
            print("VIOLATION property=%s replay=%s" % (pid, path))
            print("  history #%d: digest %s under PYTHONHASHSEED=%s, %s under %s" % (c["target"], a.get(c["target"]), h0, b.get(c["target"]), h1))
            return 1
        print("NOT-REPRODUCED property=%s replay=%s" % (pid, path))
        return 0
    if rep["violation"].get("kind") == "cold_start":
        cv, _, cerr = cold_start_probe([rep["violation"]["case"]["op"]])
        for e in cerr:
            print("HARNESS-ERROR: %s" % e["error"], file=sys.stderr)
        if cv:
            print("VIOLATION property=%s replay=%s" % (pid, path))
            print("  %s" % cv[0]["detail"][:400])
            return 1
        print("NOT-REPRODUCED property=%s replay=%s" % (pid, path))
        return 2 if cerr else 0
    if rep["violation"].get("kind") == "process_history":
        c = rep["violation"]["case"]
        a, b = run_sequences(pid, c["seed"], c["tier_cfg"], [c["predecessors"] + [c["target"]],
                                                              c["reference_predecessors"] + [c["target"]]], 600,
                             c.get("pythonhashseed", 0))
        if a and b and a.get(c["target"]) != b.get(c["target"]):
            print("VIOLATION property=%s replay=%s" % (pid, path))
            print("  history #%d: digest %s after predecessors %s, %s in a fresh interpreter" % (
                c["target"], a.get(c["target"]), c["predecessors"], b.get(c["target"])))
            return 1
        print("NOT-REPRODUCED property=%s replay=%s" % (pid, path))
        return 0
    cfg = dict(TIERS[pid]["quick"])
    lines = run_workers([({"property": pid, "mode": "replay", "replay": rep, "tier_cfg": cfg},
                          rep.get("pythonhashseed", 0))], 300)[0]
    for l in lines:
        if l.get("type") == "harness_error":
            print("HARNESS-ERROR: %s" % l["error"], file=sys.stderr)
            return 2
        if l.get("type") == "replay":
            if l["reproduced"]:
                print("VIOLATION property=%s replay=%s" % (pid, path))
                print("  same_event_digest=%s detail=%s" % (l.get("same_digest"), str(l["violation"].get("detail"))[:300]))
                return 1
            print("NOT-REPRODUCED property=%s replay=%s (d42 digest now %s, recorded %s)" % (
                pid, path, src_digest(), rep.get("d42_digest")))
            return 0
    return 2
