"""Sensitivity self-test (not registered in MANIFEST): planned, test-passing mutants of d42.

./check --mutants [ID ...] [--with-tests]
Each mutant is applied to a scratch copy of /repo (outside /repo and /verif), the owning
quick check runs with D42_SRC pointing there and must exit 1; the copy is removed at once.
"""
import os
import shutil
import subprocess
import sys
import tempfile
import time

M = []


def mut(mid, prop, path, old, new, note=""):
    M.append({"id": mid, "property": prop, "path": path, "old": old, "new": new, "note": note})


G = "d42/generation/_generator.py"
RG = "d42/generation/_regex_generator.py"
RND = "d42/generation/_random.py"
SUB = "d42/substitution/_substitutor.py"

# ---- C01
mut("c01-str-maxlen+1", "C01", G, "length = self._random.random_int(min_length, max_length)\n\n        if schema.props.alphabet",
    "length = self._random.random_int(min_length, max_length + 1)\n\n        if schema.props.alphabet",
    "str length may exceed max_len by one, only on the maximal draw")
mut("c01-substr-ignores-alphabet", "C01", G, "generated = self._random.random_str(length - len(substr), alphabet)",
    "generated = self._random.random_str(length - len(substr), STR_ALPHABET)", "padding around substr ignores alphabet")
mut("c01-typed-list-minlen-only", "C01", G, "            length = self._random.random_int(min_length, max_length)\n\n        if schema.props.type",
    "            length = self._random.random_int(min_length, max(min_length, LIST_LEN_MAX))\n\n        if schema.props.type",
    "typed list ignores a max_len below the default when min is set")
mut("c01-any-drops-last", "C01", G, "chosen = self._random.random_choice(schema.props.types)",
    "chosen = self._random.random_choice(schema.props.types[:-1] or schema.props.types)", "any never picks last (harmless) - expected NOT caught")
mut("c01-float-precision-off", "C01", RND, "return min(max(round(result, precision), start), end)",
    "return min(max(round(result, precision - 1), start), end) if precision > 14 else min(max(round(result, precision), start), end)",
    "harmless for validation (validator ignores precision) - expected NOT caught")
mut("c01-int-min-off-by-one", "C01", G, "return self._random.random_int(min_value, max_value)\n\n    def visit_float",
    "return self._random.random_int(min_value - (1 if schema.props.max is not Nil else 0), max_value)\n\n    def visit_float",
    "int below min on the minimal draw when max is also declared")
mut("c01-date-overflow", "C01", G, "days = self._random.random_int(-100_000, +100_000)", "days = self._random.random_int(-100_000, +3_000_000)",
    "date generation overflows only for large draws")
mut("c01-dict-optional-wrong", "C01", G, "            if is_optional:\n                continue\n            generated[key]",
    "            if is_optional and len(generated) > 0:\n                continue\n            generated[key]",
    "harmless (optional keys may be generated) - expected NOT caught")
mut("c01-substr-offset", "C01", G, "offset = self._random.random_int(0, len(generated))\n            return generated[0:offset] + substr + generated[offset:]",
    "offset = self._random.random_int(0, len(generated))\n            return generated[0:offset] + substr + generated[offset + (1 if offset == len(generated) - 1 and offset > 2 else 0):]",
    "drops one char when the offset draw is next-to-last: length constraint broken on one draw outcome only")
mut("c01-list-len-pad-short", "C01", G, "padding = [None] * (schema.props.len - len(elements))",
    "padding = [None] * (schema.props.len - len(elements) - (1 if len(elements) > 2 else 0))", "ellipsis+len pads one short for >2 concrete elements")

# ---- C09
mut("c09-range-hi+1", "C09", RG, "ordinal = self._random.random_int(min_ord, max_ord)", "ordinal = self._random.random_int(min_ord, max_ord + 1)")
mut("c09-lazy-ignores-min", "C09", RG, "        return self._generate_max_repeat(value)\n\n    def _generate_at",
    "        min_count, max_count, val = value\n        return self._generate_max_repeat((0 if min_count == 1 else min_count, max_count, val))\n\n    def _generate_at")
mut("c09-open-repeat-cap", "C09", RG, "max_count = max(self._max_repeat, min_count)", "max_count = self._max_repeat")
mut("c09-unknown-category-empty", "C09", RG, '            raise ValueError(f"Unknown category {value}")', '            return ""')
mut("c09-unknown-opcode-empty", "C09", RG, '            raise ValueError(f"Unknown opcode {opcode}")', '            return ""')
mut("c09-negate-ignores-ranges", "C09", RG, "                exclude_letters += \"\".join(self._generate_literal(x) for x in range(min_ord,\n                                                                                    max_ord + 1))",
    "                exclude_letters += \"\".join(self._generate_literal(x) for x in range(min_ord,\n                                                                                    max_ord))")
mut("c09-maxrepeat-regression", "C09", RG, "if max_count == MAXREPEAT:", "if max_count in (MAX_REPEAT, MAXREPEAT):", "the original defect")

# ---- C04
mut("c04-key-stays-optional", "C04", SUB, "keys[key] = (val.__accept__(self, value=value[key], **kwargs), False)",
    "keys[key] = (val.__accept__(self, value=value[key], **kwargs), is_optional)")
mut("c04-tail-index", "C04", SUB, "index = max(0, len(value) - len(elements))", "index = max(0, len(value) - len(elements) - 1)")
mut("c04-typed-keeps-type", "C04", SUB, "return schema.__class__(schema.props.update(elements=elements, type=Nil))",
    "return schema.__class__(schema.props.update(elements=elements))")
mut("c04-any-keeps-failed", "C04", SUB, "                except SubstitutionError:\n                    pass\n                else:\n                    types.append(substituted)\n            if len(types) == 0:",
    "                except SubstitutionError:\n                    types.append(sch_type)\n                else:\n                    types.append(substituted)\n            if len(types) == 0:")
mut("c04-dict-drops-unspecified", "C04", SUB, "                else:\n                    keys[key] = (val, is_optional)", "                else:\n                    pass")
mut("c04-any-empty-regression", "C04", SUB, "            if len(types) == 0:\n                raise SubstitutionError(f\"Can't substitute {value!r} into any of the types\")\n", "",
    "the original defect")
mut("c04-remaining-not-pinned", "C04", SUB, "        for i in range(start + len(substituted), len(value)):\n            substituted.insert(i, self._from_native(value[i]))",
    "        for i in range(start + len(substituted), len(value)):\n            substituted.insert(i, self._from_native(value[i]) if i % 5 else AnySchema())",
    "every 5th trailing element of a head-window list is left unpinned")

# ---- C17
mut("c17-dict-set-order", "C17", G, "        for key, (val, is_optional) in schema.props.keys.items():\n            if is_ellipsis(key):\n                continue\n            if is_optional:",
    "        for key in sorted(schema.props.keys, key=lambda k: hash(k) if isinstance(k, str) else 0):\n            val, is_optional = schema.props.keys[key]\n            if is_ellipsis(key):\n                continue\n            if is_optional:",
    "dict members generated in string-hash order: draws are consumed in a hash-seed dependent order")
mut("c17-alphabet-set", "C17", G, "            alphabet = schema.props.alphabet\n", "            alphabet = \"\".join(set(schema.props.alphabet))\n")
mut("c17-own-rng", "C17", RND, "        return random.choice(sequence)", "        return random.choice(sequence) if len(sequence) != 3 else _own.choice(sequence)",
    "")
mut("c17-validate-draws", "C17", "d42/validation/__init__.py", "    return schema.__accept__(_validator, value=value, **kwargs)",
    "    import random\n    random.random()\n    return schema.__accept__(_validator, value=value, **kwargs)", "validate() consumes a draw")
mut("c17-regex-cache", "C17", RG, "        parsed = sre.parse(pattern)  # type: Any\n        return self._generate_pattern(parsed)",
    "        parsed = sre.parse(pattern)  # type: Any\n        if pattern in _seen:\n            self._random.random_int(0, 1)\n        _seen.add(pattern)\n        return self._generate_pattern(parsed)",
    "an extra draw the second time a pattern is seen in the process (warm vs fresh)")

# ---- C07
mut("c07-props-update-inplace", "C07", "d42/declaration/_props.py", "        registry = {**self._registry, **keys}\n        return self.__class__(registry)",
    "        if \"min\" in keys and \"max\" in self._registry:\n            self._registry.update(keys)\n            return self\n        registry = {**self._registry, **keys}\n        return self.__class__(registry)")
mut("c07-dict-keeps-caller-dict", "C07", "d42/declaration/types/_dict_schema.py", "        return self.__class__(self.props.update(keys=real_keys))",
    "        if all((not isinstance(k, optional)) and (not is_ellipsis(k)) for k in keys):\n            return self.__class__(self.props.update(keys=_KeysView(keys)))\n        return self.__class__(self.props.update(keys=real_keys))")
mut("c07-add-mutates-self", "C07", "d42/declaration/types/_dict_schema.py", "        merged_keys = {**self_keys, **other_keys}",
    "        merged_keys = self_keys\n        merged_keys.update(other_keys)")
mut("c07-make-required-inplace", "C07", "d42/utils/_make_required.py", "        updated_keys = {}\n        for key, (val, is_optional) in props_keys.items():\n            updated_keys[key] = (val, False if (key in keys) else is_optional)",
    "        updated_keys = props_keys\n        for key, (val, is_optional) in list(props_keys.items()):\n            updated_keys[key] = (val, False if (key in keys) else is_optional)")
mut("c07-list-aliasing-regression", "C07", "d42/declaration/types/_list_schema.py", "elements=list(elements_or_type)", "elements=elements_or_type", "the original defect")
mut("c07-substitutor-writes-elements", "C07", SUB, "            for val in value:\n                if is_ellipsis(val):\n                    element = val\n                else:\n                    element = schema.props.type.__accept__(self, value=val, **kwargs)\n                elements.append(element)",
    "            for val in value:\n                if is_ellipsis(val):\n                    element = val\n                else:\n                    element = schema.props.type.__accept__(self, value=val, **kwargs)\n                elements.append(element)\n            if isinstance(value, list) and len(value) > 1 and isinstance(value[-1], dict):\n                value[-1].setdefault(\"_substituted\", True)",
    "substitute mutates the caller's value (adds a key to the last dict of a list)")
mut("c07-generator-memo", "C07", G, "        return self._random.random_int(min_value, max_value)\n\n    def visit_float",
    "        if id(schema) not in _memo:\n            _memo[id(schema)] = self._random.random_int(min_value, max_value)\n        return _memo[id(schema)]\n\n    def visit_float",
    "int generation memoised by id(schema): a later fake() of the same object ignores its draws")
mut("c07-validator-keeps-path", "C07", "d42/validation/_validator.py", "                nested_path = deepcopy(path)[key]\n                res = val.__accept__(self, value=value[key], path=nested_path, **kwargs)\n                result.add_errors(res.get_errors())\n            else:\n                if not is_optional:",
    "                nested_path = path[key] if len(value) > 3 else deepcopy(path)[key]\n                res = val.__accept__(self, value=value[key], path=nested_path, **kwargs)\n                result.add_errors(res.get_errors())\n            else:\n                if not is_optional:",
    "dict validation shares the PathHolder between siblings for dicts with more than 3 keys")
mut("c07-substitutor-state", "C07", SUB, "    def visit_int(self, schema: IntSchema, *, value: Any = Nil, **kwargs: Any) -> IntSchema:\n        result = schema.__accept__(self._validator, value=value)",
    "    def visit_int(self, schema: IntSchema, *, value: Any = Nil, **kwargs: Any) -> IntSchema:\n        if getattr(self, \"_last_int\", None) == value and value > 1000:\n            return schema\n        self._last_int = value\n        result = schema.__accept__(self._validator, value=value)",
    "the module-level substitutor remembers the last int: substituting the same large int twice in a row returns the schema unpinned")
mut("c07-from-native-keeps-dict", "C07", "d42/utils/_from_native.py", "        return DictSchema()({key: from_native(val) for key, val in value.items()})",
    "        return DictSchema()({key: from_native(val) for key, val in value.items()}) if len(value) != 2 else _lazy(value)",
    "")

PREAMBLES = {
    "c07-from-native-keeps-dict": ("d42/utils/_from_native.py", "def from_native(value: Any) -> GenericSchema:", "class _LazyKeys(dict):\n    def __init__(self, src: Any) -> None:\n        super().__init__()\n        self._src = src\n\n    def _sync(self) -> None:\n        dict.clear(self)\n        for k, v in self._src.items():\n            dict.__setitem__(self, k, (from_native(v), False))\n\n    def items(self) -> Any:\n        self._sync()\n        return dict.items(self)\n\n    def keys(self) -> Any:\n        self._sync()\n        return dict.keys(self)\n\n    def __iter__(self) -> Any:\n        self._sync()\n        return dict.__iter__(self)\n\n    def __contains__(self, k: Any) -> bool:\n        self._sync()\n        return dict.__contains__(self, k)\n\n    def __getitem__(self, k: Any) -> Any:\n        self._sync()\n        return dict.__getitem__(self, k)\n\n    def __len__(self) -> int:\n        self._sync()\n        return dict.__len__(self)\n\n\ndef _lazy(value: Any) -> GenericSchema:\n    from d42.declaration.types import DictProps\n    return DictSchema(DictProps().update(keys=_LazyKeys(value)))\n\n\ndef from_native(value: Any) -> GenericSchema:"),
    "c17-own-rng": (RND, "import random\n", "import random\n_own = random.Random()\n"),
    "c17-regex-cache": (RG, "__all__ = (\"RegexGenerator\",)\n", "__all__ = (\"RegexGenerator\",)\n_seen = set()\n"),
    "c07-generator-memo": (G, "__all__ = (\"Generator\",)\n", "__all__ = (\"Generator\",)\n_memo: Dict[int, int] = {}\n"),
    "c07-dict-keeps-caller-dict": ("d42/declaration/types/_dict_schema.py", "class DictProps(Props):", "class _KeysView(dict):\n    def __init__(self, src):\n        self._src = src\n        super().__init__()\n\n    def _sync(self):\n        dict.clear(self)\n        for k, v in self._src.items():\n            dict.__setitem__(self, k, (v, False))\n\n    def items(self):\n        self._sync()\n        return dict.items(self)\n\n    def keys(self):\n        self._sync()\n        return dict.keys(self)\n\n    def __iter__(self):\n        self._sync()\n        return dict.__iter__(self)\n\n    def __contains__(self, k):\n        self._sync()\n        return dict.__contains__(self, k)\n\n    def __getitem__(self, k):\n        self._sync()\n        return dict.__getitem__(self, k)\n\n    def __len__(self):\n        self._sync()\n        return dict.__len__(self)\n\n\nclass DictProps(Props):"),
}

EXPECT_MISS = {"c01-any-drops-last", "c01-float-precision-off", "c01-dict-optional-wrong",
               "c07-validator-keeps-path",   # wrong but pure: C03 territory, not C07
               "c04-tail-index"}             # only makes substitution refuse more (C12); a success still pins v


def run(ids, with_tests=False, verif="/verif", repo="/repo"):
    rc = 0
    rows = []
    for m in M:
        if ids and m["id"] not in ids and m["property"] not in ids:
            continue
        tmp = tempfile.mkdtemp(prefix="d42mut_", dir="/tmp")
        try:
            shutil.copytree(os.path.join(repo, "d42"), os.path.join(tmp, "d42"))
            shutil.copytree(os.path.join(repo, "tests"), os.path.join(tmp, "tests"))
            for f in ("setup.cfg", "setup.py"):
                if os.path.exists(os.path.join(repo, f)):
                    shutil.copy(os.path.join(repo, f), tmp)
            p = os.path.join(tmp, m["path"])
            src = open(p).read()
            if m["old"] not in src:
                rows.append((m["id"], "STALE (pattern not found)", "", 0))
                rc = 2
                continue
            src = src.replace(m["old"], m["new"], 1)
            if m["id"] in PREAMBLES:
                pp, po, pn = PREAMBLES[m["id"]]
                if os.path.join(tmp, pp) == p:
                    src = src.replace(po, pn, 1)
                else:
                    s2 = open(os.path.join(tmp, pp)).read().replace(po, pn, 1)
                    open(os.path.join(tmp, pp), "w").write(s2)
            open(p, "w").write(src)
            tests = ""
            if with_tests:
                env = dict(os.environ, PYTHONDONTWRITEBYTECODE="1", PYTHONPATH=tmp)
                r = subprocess.run(["/venv/bin/python", "-m", "pytest", "-q", "-x", "-p", "no:cacheprovider", "tests"],
                                   cwd=tmp, env=env, capture_output=True, text=True)
                tests = "tests-pass" if r.returncode == 0 else "TESTS-FAIL"
            t0 = time.time()
            env = dict(os.environ, D42_SRC=tmp, VERIF_OUT=os.path.join(tmp, "out"))
            r = subprocess.run([os.path.join(verif, "check"), m["property"], "--tier", "quick"], cwd=verif, env=env,
                               capture_output=True, text=True)
            caught = r.returncode == 1 and "VIOLATION" in r.stdout
            status = "caught" if caught else ("MISSED" if r.returncode == 0 else "rc=%d" % r.returncode)
            if not caught and m["id"] not in EXPECT_MISS:
                rc = max(rc, 1)
            rows.append((m["id"], status, tests, time.time() - t0))
            print("%-34s %-8s %-10s %5.1fs  %s" % (m["id"], status, tests, time.time() - t0,
                                                  (r.stderr.strip().splitlines() or [""])[-1][:100] if not caught and r.returncode == 2 else ""), flush=True)
        finally:
            shutil.rmtree(tmp, ignore_errors=True)
    # restore evidence of the real tree is the caller's business (evidence files were overwritten)
    return rc, rows
