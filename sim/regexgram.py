"""Grammar of regular-expression *programs* for C09/C17: AST generation, rendering, shrinking.

Supported constructs (the property's list): literals and escapes, `.`, \\d, \\w, character
classes with literals / ranges / \\d / \\w / negation, capturing / non-capturing / named
groups, alternation (incl. empty branches), greedy and lazy `* + ? {m} {m,} {m,n}`,
`^`/`\\A` first and `$`/`\\Z` last.  Unsupported constructs (the property's list) are
spliced in as opaque atoms.
"""
import re
import string

ASCII_LETTERS_DEFAULT = string.ascii_letters + string.digits + string.punctuation + " "
WORD_DEFAULT = string.ascii_letters + string.digits + "_"
DIGITS_DEFAULT = string.digits

LIT_POOL = "abcxyzABZ019_ -.*+?()[]{}|^$\\/#\"'%é\u0416\ud800"   # non-ASCII literals incl. a lone surrogate

UNSUPPORTED = [
    "(?=a)", "(?!zz)", "(?<=a)", "(?<!a)", "\\1", "(?P=g1)", "\\s", "\\S", "\\D", "\\W",
    "[\\s]", "[\\S]", "[\\D]", "[\\Wa]", "[^\\s]", "[^\\Da]", "[a\\s]",
    "(?>ab)", "a++", "a*+", "a?+", "a{1,2}+", "(?:ab)++", "[ab]*+",
    "(?(1)b|c)", "(?(g1)>)",          # conditionals on a group (made optional below)
]


class Cfg:
    def __init__(self, r, letters=ASCII_LETTERS_DEFAULT, max_repeat=32, depth=4, budget=4096,
                 p_unsup=0.0, p_neg=0.25, size=4):
        self.r = r
        self.letters = letters
        self.max_repeat = max_repeat
        self.depth = depth
        self.budget = budget
        self.p_unsup = p_unsup
        self.p_neg = p_neg
        self.size = size
        self.ngroups = 0
        self.p_exhaust = 0.0      # chance to keep a negated class that excludes the whole letters alphabet


# ------------------------------------------------------------------ generation

def gen_pattern(cfg):
    """Returns an AST {"k":"pat","pre":anchor|None,"body":node,"post":anchor|None}."""
    r = cfg.r
    cfg.ngroups = 0
    if getattr(cfg, "p_empty", 0.0) and r.random() < cfg.p_empty:
        # the degenerate program: the empty pattern (what "|".join([]) gives), alone or anchored
        return {"k": "pat", "pre": r.choice((None, None, "^")), "body": {"k": "seq", "items": []}, "post": r.choice((None, None, "$"))}
    body = _gen_alt_or_seq(cfg, cfg.depth, cfg.budget)
    pre = r.choice(("^", "\\A")) if r.random() < 0.2 else None
    post = r.choice(("$", "\\Z")) if r.random() < 0.2 else None
    ast = {"k": "pat", "pre": pre, "body": body, "post": post}
    if cfg.p_unsup and r.random() < cfg.p_unsup:
        _splice_unsupported(ast, r)
    return ast


def _gen_alt_or_seq(cfg, depth, budget):
    r = cfg.r
    if depth > 0 and r.random() < 0.3:
        n = r.choice((2, 2, 3, 3, 4, 6))
        branches = []
        for _ in range(n):
            if r.random() < 0.12:
                branches.append({"k": "seq", "items": []})
            else:
                branches.append(_gen_seq(cfg, depth - 1, budget))
        if r.random() < 0.2:
            # branches with a common literal prefix / suffix: CPython's parser factors prefixes out
            pre = [{"k": "lit", "c": c} for c in r.choice(("a", "ab", "x1", "_"))]
            for b in branches:
                if r.random() < 0.8:
                    b["items"] = [dict(x) for x in pre] + b["items"]
        return {"k": "alt", "branches": branches}
    return _gen_seq(cfg, depth, budget)


def _gen_seq(cfg, depth, budget):
    r = cfg.r
    n = r.randint(1, max(1, cfg.size))
    share = max(1, budget // n)
    return {"k": "seq", "items": [_gen_item(cfg, depth, share) for _ in range(n)]}


def _gen_item(cfg, depth, budget):
    r = cfg.r
    if r.random() < 0.4 and budget >= 2:
        return _gen_rep(cfg, depth, budget)
    return _gen_atom(cfg, depth, budget)


def _gen_rep(cfg, depth, budget):
    r = cfg.r
    form = r.choice(("*", "+", "?", "{m}", "{m,}", "{m,n}", "{m,n}"))
    lazy = r.random() < 0.3
    mr = cfg.max_repeat
    if form == "*":
        mn, mx = 0, None
    elif form == "+":
        mn, mx = 1, None
    elif form == "?":
        mn, mx = 0, 1
    elif form == "{m}":
        mn = r.choice((0, 1, 2, 3, 5, 43, 44, 45, mr, mr + 1))
        mx = mn
    elif form == "{m,}":
        mn = r.choice((0, 1, 2, 5, 33, 43, 44, 45, mr, mr + 1, mr + 7))
        mx = None
    else:
        mn = r.choice((0, 0, 1, 2, 3, 43, 44))
        mx = mn + r.choice((0, 1, 2, 5, 43 - mn if mn < 43 else 1, 44 - mn if mn < 44 else 0,
                            45 - mn if mn < 45 else 2, 30))
    if budget >= 1024 and r.random() < 0.02:
        # an explicit count beyond 16 bits on a plain literal (no draws inside, so no draw cap)
        mn = r.choice((65535, 65536, 70000))
        mx = r.choice((mn, None))
        form = "{m}" if mx == mn else "{m,}"
        return {"k": "rep", "body": {"k": "lit", "c": r.choice("ab1")}, "min": mn, "max": mx, "lazy": lazy, "form": form}
    # the longest this repeat can get under this run's knob
    top = mx if mx is not None else max(mr, mn)
    if top > budget:
        # shrink to fit the budget (keeps the form)
        if mx is None:
            if max(mr, mn) > budget:
                # open-ended would exceed the budget under this knob: bound it
                form = "{m,n}"
                mn = min(mn, max(0, budget // 2))
                mx = max(mn, min(budget, 3))
            top = mx if mx is not None else max(mr, mn)
        else:
            mx = max(1, min(mx, budget))
            mn = min(mn, mx)
            if form == "{m}":
                mn = mx
            top = mx
    inner_budget = max(1, budget // max(1, top))
    if depth > 0 and inner_budget >= 4 and r.random() < 0.12:
        # directly nested quantifiers: (?:x{a,}){c,}, (?:x{2}){3}, (x+)* ...
        inner = _gen_rep(cfg, 0, inner_budget)
        if r.random() < 0.4 and inner_budget >= 8:
            # the classic shape: an open-ended inner repeat with a minimum of two or more, under * / {0,} / ?
            inner = dict(inner, min=r.choice((2, 2, 3)), max=None, form="{m,}")
            if top == 0 or r.random() < 0.7:
                mn, mx, form = 0, r.choice((None, None, 1)), r.choice(("*", "{m,}"))
                if mx == 1:
                    form = "?"
                elif form == "{m,}":
                    mx = None
        body = {"k": "group", "kind": r.choice(("noncap", "noncap", "cap")), "body": {"k": "seq", "items": [inner]}}
    else:
        body = _gen_atom(cfg, depth, inner_budget)
    return {"k": "rep", "body": body, "min": mn, "max": mx, "lazy": lazy, "form": form}


def _gen_atom(cfg, depth, budget):
    r = cfg.r
    x = r.random()
    if depth > 0 and x < 0.25:
        kind = r.choice(("cap", "cap", "noncap", "named"))
        cfg.ngroups += 1
        name = "n%d" % cfg.ngroups
        g = {"k": "group", "kind": kind, "body": _gen_alt_or_seq(cfg, depth - 1, budget)}
        if kind == "named":
            g["name"] = name
        return g
    if x < 0.45:
        return _gen_class(cfg)
    if x < 0.55:
        return {"k": "any"}
    if x < 0.67:
        return {"k": "cat", "c": r.choice("dw")}
    if x < 0.72:
        return {"k": "esc", "e": r.choice(("\\.", "\\\\", "\\n", "\\t", "\\x41", "\\u00e9", "\\-",
                                            "\\/", "\\ ", "\\$", "\\^", "\\|"))}
    return {"k": "lit", "c": r.choice(LIT_POOL)}


CLASS_LITS = "abcxyzAZ09_ -.^]\\$*"


def _gen_class(cfg):
    r = cfg.r
    for _ in range(20):
        items = []
        for _ in range(r.randint(1, 4)):
            y = r.random()
            if y < 0.45:
                items.append({"k": "lit", "c": r.choice(CLASS_LITS)})
            elif y < 0.8:
                lo, hi = r.choice((("a", "c"), ("a", "z"), ("A", "Z"), ("0", "9"), ("0", "3"),
                                   ("x", "z"), (" ", "/"), ("!", "~"), ("a", "a"), ("Z", "a"),
                                   (" ", "~"), ("5", "A"), ("\x00", "\x7f") if r.random() < 0.2 else ("b", "y"),
                                   ("\u0100", "\uffff") if r.random() < 0.15 else ("0", "1"),
                                   ("\ud7ff", "\ue000") if r.random() < 0.1 else ("m", "n"),
                                   # ranges that start, end or lie inside the surrogate block
                                   r.choice((("\ud800", "\udfff"), ("\ud000", "\udcff"), ("\uda00", "\uffff"), ("\udc00", "\udc03")))
                                   if r.random() < 0.1 else ("c", "e")))
                items.append({"k": "range", "a": lo, "b": hi})
            else:
                items.append({"k": "cat", "c": r.choice("dw")})
        neg = r.random() < cfg.p_neg
        if neg:
            # d42 enumerates every member of every range of a negated class for each character it draws
            # (30 ms per draw for \u0100-\uffff): speed is not what C09 is about, so negated classes keep
            # their ranges below 4096 members and one run cannot spend minutes in a single pattern
            for it in items:
                if it["k"] == "range" and ord(it["b"]) - ord(it["a"]) > 0xfff:
                    it["b"] = chr(ord(it["a"]) + 0xfff)
        node = {"k": "class", "neg": neg, "items": items}
        if neg and not (set(cfg.letters) - class_members(node)) and r.random() >= cfg.p_exhaust:
            continue   # complement normally meets the run's alphabet (else nothing ASCII *can* be generated)
        return node
    return {"k": "class", "neg": False, "items": [{"k": "lit", "c": "a"}]}


def class_members(node):
    """ASCII members of a (non-negated reading of a) class node."""
    s = set()
    for it in node["items"]:
        if it["k"] == "lit":
            s.add(it["c"])
        elif it["k"] == "range":
            s.update(chr(o) for o in range(ord(it["a"]), ord(it["b"]) + 1))
        elif it["k"] == "cat":
            s.update(DIGITS_DEFAULT if it["c"] == "d" else WORD_DEFAULT)
    return s


def _splice_unsupported(ast, r):
    """Put one unsupported construct at a random position of a random sequence."""
    seqs = []

    def walk(n):
        if n["k"] == "seq":
            seqs.append(n)
            for i in n["items"]:
                walk(i)
        elif n["k"] == "alt":
            for b in n["branches"]:
                walk(b)
        elif n["k"] in ("group", "rep"):
            walk(n["body"])
    walk(ast["body"])
    if not seqs:
        ast["body"] = {"k": "seq", "items": [ast["body"]]}
        seqs.append(ast["body"])
    s = r.choice(seqs)
    text = r.choice(UNSUPPORTED)
    node = {"k": "unsup", "text": text}
    if r.random() < 0.35:
        # an unsupported construct as the whole operand of a quantifier / inside a group
        mn = r.choice((0, 1, 1, 2))
        mx = r.choice((None, mn, mn + 1))
        form = "{m,}" if mx is None else "{m,n}"
        if r.random() < 0.5:
            node = {"k": "group", "kind": r.choice(("cap", "noncap")), "body": {"k": "seq", "items": [node]}}
        node = {"k": "rep", "body": node, "min": mn, "max": mx, "lazy": r.random() < 0.3, "form": form}
    s["items"].insert(r.randint(0, len(s["items"])), node)
    if text in ("\\1", "(?P=g1)"):
        # make the reference resolvable: a named capturing group first in the pattern
        body = ast["body"]
        first = {"k": "group", "kind": "named", "name": "g1",
                 "body": {"k": "seq", "items": [{"k": "lit", "c": "a"}]}}
        ast["body"] = {"k": "seq", "items": [first, body]}
    if text.startswith("(?("):
        # a conditional needs its group; keep the group *optional* so that both arms are reachable
        body = ast["body"]
        first = {"k": "group", "kind": "named", "name": "g1",
                 "body": {"k": "seq", "items": [{"k": "lit", "c": "<"}]}}
        first = {"k": "rep", "body": first, "min": 0, "max": 1, "lazy": False, "form": "?"}
        ast["body"] = {"k": "seq", "items": [first, body]}


# ------------------------------------------------------------------ rendering

def render(ast):
    return (ast["pre"] or "") + _r(ast["body"], top=True) + (ast["post"] or "")


def _esc_lit(c):
    if c in ".^$*+?{}[]\\|()/#\"'% -":
        return re.escape(c)
    return c


def _esc_cls(c):
    if c in "\\]^-[":
        return "\\" + c
    return c


def _r(n, top=False):
    k = n["k"]
    if k == "lit":
        return _esc_lit(n["c"])
    if k == "esc":
        return n["e"]
    if k == "any":
        return "."
    if k == "cat":
        return "\\" + n["c"]
    if k == "unsup":
        return n["text"]
    if k == "class":
        out = "[" + ("^" if n["neg"] else "")
        for it in n["items"]:
            if it["k"] == "lit":
                out += _esc_cls(it["c"])
            elif it["k"] == "range":
                out += _esc_cls(it["a"]) + "-" + _esc_cls(it["b"])
            else:
                out += "\\" + it["c"]
        return out + "]"
    if k == "seq":
        return "".join(_r(i) if i["k"] != "alt" else "(?:" + _r(i) + ")" for i in n["items"])
    if k == "alt":
        return "|".join(_r(b) for b in n["branches"])
    if k == "group":
        inner = _r(n["body"])
        if n["kind"] == "cap":
            return "(" + inner + ")"
        if n["kind"] == "noncap":
            return "(?:" + inner + ")"
        return "(?P<%s>%s)" % (n["name"], inner)
    if k == "rep":
        b = n["body"]
        inner = _r(b)
        if b["k"] in ("seq", "alt", "rep") or (b["k"] == "unsup"):
            inner = "(?:" + inner + ")"
        mn, mx, form = n["min"], n["max"], n["form"]
        if form == "*" and (mn, mx) == (0, None):
            q = "*"
        elif form == "+" and (mn, mx) == (1, None):
            q = "+"
        elif form == "?" and (mn, mx) == (0, 1):
            q = "?"
        elif mx is None:
            q = "{%d,}" % mn
        elif mn == mx and form == "{m}":
            q = "{%d}" % mn
        else:
            q = "{%d,%d}" % (mn, mx)
        return inner + q + ("?" if n["lazy"] else "")
    raise ValueError(k)


# ------------------------------------------------------------------ features

def unsupported_texts(ast):
    out = set()

    def walk(n):
        if isinstance(n, dict):
            if n.get("k") == "unsup":
                out.add(n["text"])
            for v in n.values():
                walk(v)
        elif isinstance(n, list):
            for v in n:
                walk(v)
    walk(ast)
    return out


def features(ast):
    f = set()

    def walk(n, d):
        k = n["k"]
        if k == "seq":
            for i in n["items"]:
                walk(i, d)
        elif k == "alt":
            f.add("alt")
            if any(b["k"] == "seq" and not b["items"] for b in n["branches"]):
                f.add("alt_empty_branch")
            for b in n["branches"]:
                walk(b, d)
        elif k == "group":
            f.add("group_" + n["kind"])
            walk(n["body"], d + 1)
        elif k == "rep":
            f.add("rep" + ("_lazy" if n["lazy"] else ""))
            f.add("rep_open" if n["max"] is None else "rep_bounded")
            if n["max"] in (43, 44):
                f.add("rep_max_eq_opcode_%d" % n["max"])
            if n["body"]["k"] == "group":
                f.add("rep_of_group")
            walk(n["body"], d + 1)
        elif k == "class":
            f.add("class_neg" if n["neg"] else "class")
            for it in n["items"]:
                f.add(("negclass_" if n["neg"] else "class_") + it["k"])
        elif k == "unsup":
            f.add("unsup")
        else:
            f.add(k)
    walk(ast["body"], 0)
    if ast["pre"]:
        f.add("anchor_start")
    if ast["post"]:
        f.add("anchor_end")
    return sorted(f)


def has_unsupported(ast):
    return "unsup" in features(ast)


def has_negation(ast):
    fs = features(ast)
    return "class_neg" in fs


# ------------------------------------------------------------------ shrinking

def shrink_candidates(ast):
    """Yield smaller ASTs (tree surgery), most aggressive first."""
    import copy
    if ast["pre"]:
        c = copy.deepcopy(ast)
        c["pre"] = None
        yield c
    if ast["post"]:
        c = copy.deepcopy(ast)
        c["post"] = None
        yield c
    body = ast["body"]
    for nb in _shrink_node(body):
        yield {"k": "pat", "pre": ast["pre"], "body": nb, "post": ast["post"]}


def _shrink_node(n):
    import copy
    k = n["k"]
    if k == "seq":
        items = n["items"]
        if len(items) > 1:
            half = len(items) // 2
            yield {"k": "seq", "items": items[:half]}
            yield {"k": "seq", "items": items[half:]}
            for i in range(len(items)):
                yield {"k": "seq", "items": items[:i] + items[i + 1:]}
        for i, it in enumerate(items):
            for s in _shrink_node(it):
                yield {"k": "seq", "items": items[:i] + [s] + items[i + 1:]}
    elif k == "alt":
        bs = n["branches"]
        for b in bs:
            yield b
        if len(bs) > 2:
            for i in range(len(bs)):
                yield {"k": "alt", "branches": bs[:i] + bs[i + 1:]}
        for i, b in enumerate(bs):
            for s in _shrink_node(b):
                yield {"k": "alt", "branches": bs[:i] + [s] + bs[i + 1:]}
    elif k == "group":
        yield n["body"]
        if n["kind"] != "noncap":
            c = dict(n)
            c["kind"] = "noncap"
            c.pop("name", None)
            yield c
        for s in _shrink_node(n["body"]):
            c = dict(n)
            c["body"] = s
            yield c
    elif k == "rep":
        yield n["body"]
        if n["lazy"]:
            c = dict(n)
            c["lazy"] = False
            yield c
        mn, mx = n["min"], n["max"]
        for nmn, nmx in ((0, mx), (mn, mn), (1 if mn > 1 else mn, mx), (mn // 2, mx),
                         (mn, None if mx is None else max(mn, mx // 2)),
                         (mn, None if mx is None else max(mn, mx - 1)), (max(0, mn - 1), mx)):
            if (nmn, nmx) != (mn, mx) and (nmx is None or nmn <= nmx):
                c = dict(n)
                c["min"], c["max"] = nmn, nmx
                c["form"] = "{m,}" if nmx is None else "{m,n}"
                yield c
        for s in _shrink_node(n["body"]):
            c = dict(n)
            c["body"] = s
            yield c
    elif k == "class":
        its = n["items"]
        if len(its) > 1:
            for i in range(len(its)):
                c = dict(n)
                c["items"] = its[:i] + its[i + 1:]
                yield c
        for i, it in enumerate(its):
            if it["k"] == "range" and it["a"] != it["b"]:
                c = dict(n)
                c["items"] = its[:i] + [{"k": "lit", "c": it["a"]}] + its[i + 1:]
                yield c
    elif k in ("esc", "any", "cat"):
        yield {"k": "lit", "c": "a"}
    elif k == "lit":
        if n["c"] != "a":
            yield {"k": "lit", "c": "a"}


# ------------------------------------------------------------------ reference matcher
# Polynomial-time full-match for the *supported* subset, by position-set simulation over the
# AST.  Needed because re.fullmatch backtracks exponentially on some generated programs
# (nested quantifiers); it is cross-checked against re.fullmatch whenever re answers in time.

_ESC = {"\\.": ".", "\\\\": "\\", "\\n": "\n", "\\t": "\t", "\\x41": "A", "\\u00e9": "é",
        "\\-": "-", "\\/": "/", "\\ ": " ", "\\$": "$", "\\^": "^", "\\|": "|"}


def _is_word(c):
    return c.isalnum() or c == "_"


def _cls_has(n, c):
    hit = False
    for it in n["items"]:
        k = it["k"]
        if k == "lit":
            if c == it["c"]:
                hit = True
                break
        elif k == "range":
            if it["a"] <= c <= it["b"]:
                hit = True
                break
        elif it["c"] == "d":
            if c.isdecimal():
                hit = True
                break
        else:
            if _is_word(c):
                hit = True
                break
    return hit != n["neg"]


_FAST_REP = True


def _atom_pred(n):
    k = n["k"]
    if k == "lit":
        c = n["c"]
        return lambda x: x == c
    if k == "esc":
        c = _ESC[n["e"]]
        return lambda x: x == c
    if k == "any":
        return lambda x: x != "\n"
    if k == "cat":
        return (lambda x: x.isdecimal()) if n["c"] == "d" else _is_word
    return lambda x: _cls_has(n, x)


def _ends(n, s, starts):
    k = n["k"]
    L = len(s)
    if not starts:
        return starts
    if k == "lit":
        c = n["c"]
        return {i + 1 for i in starts if i < L and s[i] == c}
    if k == "esc":
        c = _ESC[n["e"]]
        return {i + 1 for i in starts if i < L and s[i] == c}
    if k == "any":
        return {i + 1 for i in starts if i < L and s[i] != "\n"}
    if k == "cat":
        if n["c"] == "d":
            return {i + 1 for i in starts if i < L and s[i].isdecimal()}
        return {i + 1 for i in starts if i < L and _is_word(s[i])}
    if k == "class":
        return {i + 1 for i in starts if i < L and _cls_has(n, s[i])}
    if k == "seq":
        cur = starts
        for it in n["items"]:
            cur = _ends(it, s, cur)
            if not cur:
                break
        return cur
    if k == "alt":
        out = set()
        for b in n["branches"]:
            out |= _ends(b, s, starts)
        return out
    if k == "group":
        return _ends(n["body"], s, starts)
    if k == "rep":
        mn, mx = n["min"], n["max"]
        b = n["body"]
        if _FAST_REP and b["k"] in ("lit", "esc", "any", "cat", "class"):
            # a repeated single-character atom: one pass computing, for every start, how far the run of
            # matching characters reaches (b{65535} after an open-ended repeat is 65535 set sweeps otherwise)
            ends = _RUN_CACHE.get(id(b))
            if ends is None or len(ends) != L + 1:
                # ends[i] = first position >= i whose character does not match the atom (or L); computed once
                # per (atom, string) and shared by every call an enclosing repeat makes
                ok = _atom_pred(b)
                ends = [L] * (L + 1)
                for i in range(L - 1, -1, -1):
                    ends[i] = ends[i + 1] if ok(s[i]) else i
                _RUN_CACHE[id(b)] = ends
            spans = []
            for p0 in starts:
                if p0 > L:
                    continue
                j = ends[p0]
                hi = j if mx is None else min(j, p0 + mx)
                lo = p0 + mn
                if lo <= hi:
                    spans.append((lo, hi))
            # union of the intervals, materialised once (each start contributing its whole interval is
            # quadratic when thousands of starts share one long run)
            out = set()
            spans.sort()
            cur_lo = cur_hi = None
            for lo, hi in spans:
                if cur_hi is None or lo > cur_hi + 1:
                    if cur_hi is not None:
                        out.update(range(cur_lo, cur_hi + 1))
                    cur_lo, cur_hi = lo, hi
                elif hi > cur_hi:
                    cur_hi = hi
            if cur_hi is not None:
                out.update(range(cur_lo, cur_hi + 1))
            return out
        cur = set(starts)
        for _ in range(mn):
            cur = _ends(n["body"], s, cur)
            if not cur:
                return cur
        out = set(cur)
        count = mn
        while mx is None or count < mx:
            nxt = _ends(n["body"], s, cur)
            new = nxt - out
            if not new:
                break
            out |= new
            cur = new
            count += 1
        return out
    raise ValueError("no reference semantics for %r" % (k,))


_RUN_CACHE = {}


def ast_fullmatch(ast, s):
    _RUN_CACHE.clear()
    try:
        return len(s) in _ends(ast["body"], s, {0})
    finally:
        _RUN_CACHE.clear()


def sample_min(ast, letters=ASCII_LETTERS_DEFAULT):
    """A short string that fully matches a supported-construct AST (None if it cannot find one)."""
    def s(n):
        k = n["k"]
        if k == "lit":
            return n["c"]
        if k == "esc":
            return _ESC[n["e"]]
        if k == "any":
            return "a"
        if k == "cat":
            return "0" if n["c"] == "d" else "a"
        if k == "class":
            if not n["neg"]:
                it = n["items"][0]
                if it["k"] == "lit":
                    return it["c"]
                if it["k"] == "range":
                    return it["a"]
                return "0" if it["c"] == "d" else "a"
            for c in letters:
                if _cls_has(n, c):
                    return c
            raise LookupError
        if k == "seq":
            return "".join(s(i) for i in n["items"])
        if k == "alt":
            return s(n["branches"][0])
        if k == "group":
            return s(n["body"])
        if k == "rep":
            return s(n["body"]) * n["min"]
        raise LookupError
    try:
        out = s(ast["body"])
    except LookupError:
        return None
    return out if ast_fullmatch(ast, out) else None


def rep_nesting(ast):
    """Maximal nesting depth of quantifiers (1 = no quantifier inside a quantified body)."""
    def d(n):
        k = n["k"]
        if k == "rep":
            return 1 + d(n["body"])
        if k == "seq":
            return max([d(i) for i in n["items"]] or [0])
        if k == "alt":
            return max([d(b) for b in n["branches"]] or [0])
        if k == "group":
            return d(n["body"])
        return 0
    return d(ast["body"])


def negclass_exhausts(ast, letters):
    """True if some negated class of the pattern excludes every character of `letters`."""
    found = []

    def walk(n):
        k = n["k"]
        if k == "class":
            if n["neg"] and not (set(letters) - class_members(n)):
                found.append(1)
        elif k == "seq":
            for i in n["items"]:
                walk(i)
        elif k == "alt":
            for b in n["branches"]:
                walk(b)
        elif k in ("group", "rep"):
            walk(n["body"])
    walk(ast["body"])
    return bool(found)


def member_safe(ast, max_reps=3):
    """Backtracking-safe shape for regex *members* of schemas: d42's own validator runs re.search on
    them (no guard possible there), so quantifier bodies must be plain atoms (no group, hence no
    alternation or nested quantifier under a quantifier) and there are at most `max_reps` quantifiers."""
    n = [0]
    ok = [True]

    def walk(x):
        k = x["k"]
        if k == "rep":
            n[0] += 1
            if x["body"]["k"] == "group" and (x["min"], x["max"]) == (0, 1):
                walk(x["body"])      # an optional group repeats nothing: as safe as its body
            elif x["body"]["k"] not in ("lit", "esc", "any", "cat", "class", "unsup"):
                ok[0] = False
            if x["max"] is None and x["min"] > 64:
                ok[0] = False
        elif k == "seq":
            for i in x["items"]:
                walk(i)
        elif k == "alt":
            for b in x["branches"]:
                walk(b)
        elif k == "group":
            walk(x["body"])
    walk(ast["body"])
    return ok[0] and n[0] <= max_reps
