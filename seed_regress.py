#!/venv/bin/python
"""Re-run the owning quick check against every seeded change in /verif/seeded (regression of the
sensitivity claims in DESIGN 9.4).   ./seed_regress.py [id-prefix ...]

A patch is applied to a scratch worktree of /repo at HEAD when it still applies there, otherwise at
the commit it was written against.  A seed counts as caught when the patched tree yields a VIOLATION
signature that the same tree without the patch does not yield.  Worktrees live under /tmp and are
removed immediately.
"""
import glob
import json
import os
import re
import subprocess
import sys
import tempfile

VERIF = os.path.dirname(os.path.abspath(__file__))
REPO = "/repo"


# seeds that this script cannot show as caught, and why (see DESIGN 9.4)
EXPECTED_NOT_CAUGHT = {
    "c17-s13": "out of reach: needs schemas nested > 100 levels (recorded as a limit)",
    "c07-s28": "out of reach: needs values nested ~1000 levels and an outcome that depends on the recursion limit (recorded as a limit)",
    "c17-s27": "out of reach: a helper (rollout) plus user code around it that the sequences do not use (recorded as a limit)",
    "c09-s9": "the patch only applies to its old base commit, where the unrepaired tree (before 08c3f04) already shows the same signature",
    "c09-s15": "the patch only applies to its old base commit, where the unrepaired tree (before 2616327) already shows the same signature",
}


def sh(*a, **kw):
    return subprocess.run(a, capture_output=True, text=True, **kw)


def run_check(prop, tree):
    out = tempfile.mkdtemp(prefix="seedreg_out_", dir="/tmp")
    env = dict(os.environ, D42_SRC=tree, VERIF_OUT=out)
    r = sh(os.path.join(VERIF, "check"), prop, "--tier", "quick", cwd=VERIF, env=env)
    sigs = set(re.findall(r"signature=(\{.*?\}) detail", r.stdout))
    n = len(re.findall(r"^VIOLATION ", r.stdout, re.M))
    counts = {}
    for f in glob.glob(os.path.join(out, "replays", prop, "*.json")):
        try:
            v = json.load(open(f))["violation"]
            counts[json.dumps(v.get("signature"), sort_keys=True)] = v.get("total_count", v.get("count_in_worker", 1)) or 1
        except Exception:
            pass
    subprocess.run(["rm", "-rf", out])
    return r.returncode, sigs, n, r.stdout[-600:] + r.stderr[-300:], counts


def main():
    want = sys.argv[1:]
    head = sh("git", "-C", REPO, "rev-parse", "--short", "HEAD").stdout.strip()
    baseline = {}
    rows = []
    metas = sorted(glob.glob(os.path.join(VERIF, "seeded", "*", "meta.json")))
    for mf in metas:
        m = json.load(open(mf))
        sid = m["id"]
        if want and not any(sid.startswith(w) for w in want):
            continue
        patch = os.path.join(os.path.dirname(mf), "patch.diff")
        prop = m["property"]
        used = None
        for base in dict.fromkeys((head, m["confirmed"]["base_commit"])):
            wt = tempfile.mkdtemp(prefix="seedreg_wt_", dir="/tmp")
            os.rmdir(wt)
            sh("git", "-C", REPO, "worktree", "add", "--detach", wt, base)
            try:
                a = sh("git", "-C", wt, "apply", "--check", patch)
                if a.returncode != 0:
                    continue
                key = (base, prop)
                if key not in baseline:
                    baseline[key] = run_check(prop, wt)
                sh("git", "-C", wt, "apply", patch)
                rc, sigs, n, tail, counts = run_check(prop, wt)
                brc, bsigs, bn, _, bcounts = baseline[key]
                new = sigs - bsigs
                # on an old base the tree itself may show the same coarse signature (defects repaired
                # since): then a clear rise in how often that signature occurs counts as well
                more = [k for k, c in counts.items() if c >= bcounts.get(k, 0) * 1.3 + 5]
                if not new and more:
                    new = set("more-of:" + k for k in more)
                caught = (rc == 1) and (bool(new) or n > bn)
                if not caught and base == head and m["confirmed"]["base_commit"] != head:
                    # a later repair in /repo may have neutralised the seeded change on HEAD: judge it on
                    # the commit it was written against
                    print("%-8s %s not caught on HEAD %s, retrying on its base commit" % (sid, prop, head), flush=True)
                    continue
                rows.append((sid, prop, base, "caught" if caught else "MISSED", sorted(new)[:2], rc))
                print("%-8s %s base=%s %-7s rc=%d new=%s" % (sid, prop, base, "caught" if caught else "MISSED", rc,
                                                            "; ".join(sorted(new))[:160]), flush=True)
                if not caught:
                    print("   tail:", tail.replace("\n", " | ")[-400:], flush=True)
                used = base
                break
            finally:
                sh("git", "-C", REPO, "worktree", "remove", "--force", wt)
        if used is None and not any(r[0] == sid for r in rows):
            print("%-8s %s PATCH DOES NOT APPLY anywhere" % (sid, prop), flush=True)
            rows.append((sid, prop, None, "NOAPPLY", [], -1))
    sh("git", "-C", REPO, "worktree", "prune")
    missed = [r for r in rows if r[3] != "caught"]
    print("seeds=%d caught=%d not-caught=%d" % (len(rows), len(rows) - len(missed), len(missed)))
    unexpected = [r for r in missed if r[0] not in EXPECTED_NOT_CAUGHT]
    for r in missed:
        print("  %-8s %s" % (r[0], EXPECTED_NOT_CAUGHT.get(r[0], "UNEXPECTED")))
    return 1 if unexpected else 0


if __name__ == "__main__":
    sys.exit(main())
