#!/bin/bash
# usage: seed_eval.sh <PROP> <worktree> <seed-dir> [tier]   -- confirm a seeded change and run the owning check against it
PROP=$1; WT=$2; SD=$3; TIER=${4:-quick}
set -u
cd "$WT" || exit 9
git checkout -q -- . 
echo "--- demo on clean tree"; PYTHONPATH=$WT timeout 600 /venv/bin/python $SD/demo.py >/dev/null 2>&1; echo "demo_clean_rc=$?"
git apply $SD/patch.diff || { echo "PATCH DOES NOT APPLY"; exit 8; }
echo "--- tests with change"; PYTHONPATH=$WT timeout 900 /venv/bin/python -m pytest -q -p no:cacheprovider 2>&1 | tail -1
echo "--- demo with change"; PYTHONPATH=$WT timeout 600 /venv/bin/python $SD/demo.py >/dev/null 2>&1; echo "demo_changed_rc=$?"
echo "--- check $PROP ($TIER) against the changed tree"
OUT=$(mktemp -d /tmp/seedout.XXXX)
( cd /verif && D42_SRC=$WT VERIF_OUT=$OUT timeout 3000 ./check $PROP --tier $TIER 2>&1 | grep -v "^KNOWN-FINDING" | cut -c1-400 | tail -8; echo "check_rc=${PIPESTATUS[0]}" )
rm -rf $OUT
git checkout -q -- .
git status --short | grep -v SEED_OUT
